(* Sparse Merkle tree of novasmt (depth-256 binary trie over the key bits, leaves hash_data(value), internal
   nodes hash_node(left, right), with hash_data [] = 0 and hash_node 0 0 = 0), over an abstract hash.
   Definitions and proofs: the root is a function of the contents, proofs of presence and absence verify,
   and - for a collision-free hash - a verifying proof determines the value. *)
From Coq Require Import List Bool NArith Lia.
Import ListNotations.

Section Smt.
Variable H : Type.
Variable zero : H.
Variable hash_data : list N -> H.
Variable hash_node : H -> H -> H.
Hypothesis hash_data_nil : hash_data [] = zero.
Hypothesis hash_node_zero : hash_node zero zero = zero.

(* contents: a total function from key paths to values, [] meaning "absent" (as novasmt stores it) *)
Definition contents := list bool -> list N.
Definition sub (m : contents) (b : bool) : contents := fun p => m (b :: p).

Fixpoint root (d : nat) (m : contents) : H :=
  match d with
  | O => hash_data (m [])
  | S d' => hash_node (root d' (sub m false)) (root d' (sub m true))
  end.

(* equal contents give equal roots, whatever sequence of inserts and deletes produced them *)
Theorem root_ext : forall d m1 m2, (forall p, m1 p = m2 p) -> root d m1 = root d m2.
Proof.
  induction d as [|d IH]; intros m1 m2 E; cbn [root].
  - rewrite E. reflexivity.
  - f_equal; apply IH; intros p; apply E.
Qed.

Lemma root_empty : forall d m, (forall p, m p = []) -> root d m = zero.
Proof.
  induction d as [|d IH]; intros m E; cbn [root].
  - rewrite E. apply hash_data_nil.
  - rewrite !IH by (intros p; apply E). apply hash_node_zero.
Qed.

(* the proof for a key: the sibling root at every level, top first (FullProof) *)
Fixpoint proof (d : nat) (m : contents) (key : list bool) : list H :=
  match d, key with
  | S d', b :: k' => root d' (sub m (negb b)) :: proof d' (sub m b) k'
  | _, _ => []
  end.

(* FullProof::verify_pure: fold from the leaf upwards *)
Fixpoint climb (sibs : list H) (key : list bool) (leaf : H) : H :=
  match sibs, key with
  | s :: sibs', b :: key' =>
    let below := climb sibs' key' leaf in
    if b then hash_node s below else hash_node below s
  | _, _ => leaf
  end.

Definition verify_with (eqb : H -> H -> bool) (sibs : list H) (r : H) (key : list bool) (val : list N) : bool :=
  eqb r (climb sibs key (hash_data val)).

(* completeness: the proof of any key - present or absent - climbs back to the root *)
Theorem proof_complete : forall d m key, length key = d ->
  climb (proof d m key) key (hash_data (m key)) = root d m.
Proof.
  induction d as [|d IH]; intros m key Hl; destruct key as [|b k]; try discriminate; cbn [proof climb root].
  - reflexivity.
  - injection Hl as Hl. specialize (IH (sub m b) k Hl).
    change (hash_data (m (b :: k))) with (hash_data (sub m b k)). cbn zeta. rewrite IH.
    destruct b; reflexivity.
Qed.

(* soundness for a collision-free hash: if some list of siblings climbs from value v at key to the root of m,
   then v IS the value of key in m *)
Hypothesis hash_node_inj : forall a b a' b', hash_node a b = hash_node a' b' -> a = a' /\ b = b'.
Hypothesis hash_data_inj : forall v v', hash_data v = hash_data v' -> v = v'.

Theorem proof_sound : forall d m key sibs v, length key = d -> length sibs = d ->
  climb sibs key (hash_data v) = root d m -> v = m key.
Proof.
  induction d as [|d IH]; intros m key sibs v Hk Hs E;
    destruct key as [|b k]; destruct sibs as [|s sibs]; try discriminate; cbn [climb root] in E.
  - apply hash_data_inj. exact E.
  - injection Hk as Hk. injection Hs as Hs. destruct b.
    + apply hash_node_inj in E as [_ E]. apply (IH (sub m true) k sibs v Hk Hs E).
    + apply hash_node_inj in E as [E _]. apply (IH (sub m false) k sibs v Hk Hs E).
Qed.

(* ... and equal roots mean equal contents: the root commits to every entry *)
Theorem root_inj : forall d m1 m2, root d m1 = root d m2 -> forall key, length key = d -> m1 key = m2 key.
Proof.
  induction d as [|d IH]; intros m1 m2 E key Hk; destruct key as [|b k]; try discriminate; cbn [root] in E.
  - apply hash_data_inj. exact E.
  - injection Hk as Hk. apply hash_node_inj in E as [E0 E1].
    destruct b; [apply (IH _ _ E1 k Hk)|apply (IH _ _ E0 k Hk)].
Qed.

(* ---- executable sparse version: contents as a finite list of (key, value) bindings *)
Fixpoint bits_eqb (a b : list bool) : bool :=
  match a, b with
  | [], [] => true
  | x :: a', y :: b' => Bool.eqb x y && bits_eqb a' b'
  | _, _ => false
  end.

Fixpoint lookup (key : list bool) (l : list (list bool * list N)) : list N :=
  match l with
  | [] => []
  | (k, v) :: r => if bits_eqb k key then v else lookup key r
  end.

Definition side (b : bool) (l : list (list bool * list N)) : list (list bool * list N) :=
  flat_map (fun kv => match fst kv with
                      | x :: k' => if Bool.eqb x b then [(k', snd kv)] else []
                      | [] => [] end) l.

Fixpoint sroot (d : nat) (l : list (list bool * list N)) : H :=
  match l with
  | [] => zero
  | _ =>
    match d with
    | O => hash_data (lookup [] l)
    | S d' => hash_node (sroot d' (side false l)) (sroot d' (side true l))
    end
  end.

Definition keys_have_length (d : nat) (l : list (list bool * list N)) : Prop :=
  forall kv, In kv l -> length (fst kv) = d.

Lemma lookup_side b k : forall l, lookup (b :: k) l = lookup k (side b l).
Proof.
  induction l as [|[k0 v0] l IH]; [reflexivity|].
  cbn [lookup side flat_map fst snd]. destruct k0 as [|x k0'].
  - cbn [app bits_eqb]. exact IH.
  - cbn [bits_eqb]. destruct (Bool.eqb x b) eqn:E; cbn [andb app lookup].
    + destruct (bits_eqb k0' k); [reflexivity|exact IH].
    + exact IH.
Qed.

Lemma side_keys d b l : keys_have_length (S d) l -> keys_have_length d (side b l).
Proof.
  intros Hk kv Hin. unfold side in Hin. apply in_flat_map in Hin as ([k v] & Hin & Hm).
  cbn [fst snd] in Hm. destruct k as [|x k']; [contradiction|].
  destruct (Bool.eqb x b); [|contradiction]. destruct Hm as [<-|[]]. cbn [fst].
  specialize (Hk _ Hin). cbn in Hk. lia.
Qed.

(* the executable sparse root is the root of the contents the bindings denote *)
Theorem sroot_is_root : forall d l, keys_have_length d l -> sroot d l = root d (fun k => lookup k l).
Proof.
  induction d as [|d IH]; intros l Hk.
  - destruct l as [|kv l]; cbn [sroot root]; [cbn; symmetry; apply hash_data_nil|reflexivity].
  - destruct l as [|kv l].
    + cbn [sroot]. symmetry. apply root_empty. reflexivity.
    + cbn [sroot root]. rewrite !IH by (apply side_keys; exact Hk).
      f_equal; apply root_ext; intros p; unfold sub; symmetry; apply lookup_side.
Qed.
End Smt.

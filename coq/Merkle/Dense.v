(* The dense Merkle tree of novasmt (dense.rs: TIP-908 transaction tree) over an abstract hash, and its
   reduction to the tree of Merkle/Smt.v: the dense root of a list of blocks is the root of the perfect binary
   tree whose leaf at index i (index bits most significant first) is block i, and verify_dense is the climb of
   Smt.v with the proof reversed.  The theorems of Smt.v (the root is a function of the contents, every leaf
   has a verifying proof, a verifying proof determines the leaf for a collision-free hash) therefore hold for
   the dense tree as well. *)
From stdpp Require Import base.
From Coq Require Import NArith List Lia Arith.
From MelVerif Require Import Merkle.Smt.
Import ListNotations.

Section Dense.
Variable H : Type.
Variable zero : H.
Variable hash_data : list N -> H.
Variable hash_node : H -> H -> H.

(* one level up: hash adjacent pairs (the `.tuples()` loop of DenseMerkleTree::new) *)
Fixpoint pairs_up (l : list H) : list H :=
  match l with
  | a :: b :: r => hash_node a b :: pairs_up r
  | _ => []
  end.

Fixpoint dense_top (k : nat) (l : list H) : H :=
  match k with
  | O => hd zero l
  | S k' => dense_top k' (pairs_up l)
  end.

(* leaves: block hashes, padded with the zero hash to 2^k *)
Definition dense_leaves (k : nat) (blocks : list (list N)) : list H :=
  map hash_data blocks ++ repeat zero (2 ^ k - length blocks).
Definition dense_root (k : nat) (blocks : list (list N)) : H := dense_top k (dense_leaves k blocks).

(* verify_dense: from the leaf upwards, index bits least significant first *)
Fixpoint dense_climb (proof : list H) (idx : nat) (ptr : H) : H :=
  match proof with
  | [] => ptr
  | e :: r => dense_climb r (Nat.div2 idx) (if Nat.odd idx then hash_node e ptr else hash_node ptr e)
  end.

(* ---- the same tree, top down: the root of 2^(S k) leaves is the node over the roots of the two halves *)
Lemma pairs_up_app : forall a b, Nat.even (length a) = true -> pairs_up (a ++ b) = pairs_up a ++ pairs_up b.
Proof.
  fix IH 1. intros [|x [|y a]] b He; cbn in He |- *; try discriminate; [reflexivity|].
  f_equal. apply IH. exact He.
Qed.

Lemma pairs_up_length : forall l, length (pairs_up l) = Nat.div2 (length l).
Proof. fix IH 1. intros [|x [|y l]]; cbn; [reflexivity|reflexivity|]. f_equal. apply IH. Qed.

Lemma pow2_even k : Nat.even (2 ^ S k) = true.
Proof. rewrite Nat.pow_succ_r'. rewrite Nat.even_mul. reflexivity. Qed.
Lemma pow2_div2 k : Nat.div2 (2 ^ S k) = 2 ^ k.
Proof. rewrite Nat.pow_succ_r', Nat.div2_double. reflexivity. Qed.

Lemma dense_top_split : forall k a b, length a = 2 ^ k -> length b = 2 ^ k ->
  dense_top (S k) (a ++ b) = hash_node (dense_top k a) (dense_top k b).
Proof.
  induction k as [|k IH]; intros a b Ha Hb.
  - destruct a as [|x [|? ?]]; try discriminate. destruct b as [|y [|? ?]]; try discriminate. reflexivity.
  - change (dense_top (S (S k)) (a ++ b)) with (dense_top (S k) (pairs_up (a ++ b))).
    rewrite pairs_up_app by (rewrite Ha; apply pow2_even).
    rewrite IH by (rewrite pairs_up_length, ?Ha, ?Hb; apply pow2_div2). reflexivity.
Qed.

(* index of a path (most significant bit first) *)
Fixpoint path_index (p : list bool) : nat :=
  match p with
  | [] => 0
  | b :: r => (if b then 2 ^ length r else 0) + path_index r
  end.

(* the leaves as a contents function of Smt.v: leaf i holds block i, padding holds nothing *)
Definition leaf_at (leaves : list (list N)) (p : list bool) : list N := nth (path_index p) leaves [].

Hypothesis hash_data_nil : hash_data [] = zero.

Lemma firstn_skipn_halves {A} (l : list A) k : length l = 2 ^ S k ->
  length (firstn (2 ^ k) l) = 2 ^ k /\ length (skipn (2 ^ k) l) = 2 ^ k.
Proof.
  intros Hl. rewrite firstn_length, skipn_length, Hl, Nat.pow_succ_r'. lia.
Qed.

Lemma root_ext_len : forall d m1 m2, (forall p, length p = d -> m1 p = m2 p) ->
  root H hash_data hash_node d m1 = root H hash_data hash_node d m2.
Proof.
  induction d as [|d IH]; intros m1 m2 E; cbn [root].
  - rewrite (E [] eq_refl). reflexivity.
  - f_equal; apply IH; intros p Hp; unfold sub; apply E; cbn; congruence.
Qed.

Lemma path_index_lt : forall p, path_index p < 2 ^ length p.
Proof.
  induction p as [|b p IH]; cbn [path_index length]; [cbn; lia|]. rewrite Nat.pow_succ_r'. destruct b; lia.
Qed.

Lemma nth_skipn_add {A} (d : A) : forall n l i, nth i (skipn n l) d = nth (n + i) l d.
Proof.
  induction n as [|n IH]; intros l i; [reflexivity|]. destruct l as [|x l]; cbn [skipn plus nth]; [destruct i; reflexivity|]. apply IH.
Qed.

(* a list of 2^k blocks (some possibly empty = padding) *)
Theorem dense_top_is_root : forall k (blocks : list (list N)), length blocks = 2 ^ k ->
  dense_top k (map hash_data blocks) = root H hash_data hash_node k (leaf_at blocks).
Proof.
  induction k as [|k IH]; intros blocks Hl.
  - destruct blocks as [|x [|? ?]]; try discriminate. reflexivity.
  - destruct (firstn_skipn_halves blocks k Hl) as [H1 H2].
    rewrite <- (firstn_skipn (2 ^ k) blocks) at 1. rewrite map_app.
    rewrite dense_top_split by (rewrite map_length; assumption).
    rewrite (IH _ H1), (IH _ H2). cbn [root]. f_equal; apply root_ext_len; intros p Hp; unfold sub, leaf_at; cbn [path_index].
    + pose proof (path_index_lt p) as Hlt. rewrite Hp in Hlt. cbn [plus].
      rewrite <- (firstn_skipn (2 ^ k) blocks) at 2. rewrite app_nth1 by (rewrite H1; exact Hlt). reflexivity.
    + rewrite Hp. rewrite nth_skipn_add. reflexivity.
Qed.

(* the padded leaves are the hashes of the blocks padded with empty blocks *)
Lemma dense_leaves_map k blocks :
  dense_leaves k blocks = map hash_data (blocks ++ repeat [] (2 ^ k - length blocks)).
Proof.
  unfold dense_leaves. rewrite map_app. f_equal.
  induction (2 ^ k - length blocks) as [|n IH]; cbn [repeat map]; [reflexivity|]. rewrite hash_data_nil, IH. reflexivity.
Qed.

Theorem dense_root_is_root k blocks : length blocks <= 2 ^ k ->
  dense_root k blocks = root H hash_data hash_node k (leaf_at (blocks ++ repeat [] (2 ^ k - length blocks))).
Proof.
  intros Hl. unfold dense_root. rewrite dense_leaves_map. apply dense_top_is_root.
  rewrite app_length, repeat_length. lia.
Qed.

(* index bits of i, most significant first, k of them *)
Fixpoint idx_bits (k i : nat) : list bool :=
  match k with
  | O => []
  | S k' => idx_bits k' (Nat.div2 i) ++ [Nat.odd i]
  end.

Lemma idx_bits_length : forall k i, length (idx_bits k i) = k.
Proof. induction k as [|k IH]; intros i; cbn [idx_bits]; [reflexivity|]. rewrite app_length, IH. cbn. lia. Qed.

Lemma climb_snoc e b : forall sibs bits leaf, length sibs = length bits ->
  climb H hash_node (sibs ++ [e]) (bits ++ [b]) leaf
  = climb H hash_node sibs bits (if b then hash_node e leaf else hash_node leaf e).
Proof.
  induction sibs as [|s sibs IHs]; intros [|b0 bits] leaf Hlen; try discriminate; cbn [app climb]; [reflexivity|].
  injection Hlen as Hlen. rewrite (IHs bits leaf Hlen). reflexivity.
Qed.

(* verify_dense is the climb of Smt.v on the reversed proof *)
Theorem dense_climb_is_climb : forall proof idx ptr,
  dense_climb proof idx ptr = climb H hash_node (rev proof) (idx_bits (length proof) idx) ptr.
Proof.
  induction proof as [|e r IH]; intros idx ptr; cbn [dense_climb length idx_bits rev]; [reflexivity|].
  rewrite IH. symmetry. apply climb_snoc. rewrite rev_length, idx_bits_length. reflexivity.
Qed.

(* the proof DenseMerkleTree::proof returns, in terms of Smt.v: the siblings bottom first *)
Definition dense_proof (k : nat) (blocks : list (list N)) (idx : nat) : list H :=
  rev (proof H hash_data hash_node k (leaf_at (blocks ++ repeat [] (2 ^ k - length blocks))) (idx_bits k idx)).

Lemma path_index_bits : forall k i, i < 2 ^ k -> path_index (idx_bits k i) = i.
Proof.
  induction k as [|k IH]; intros i Hi; cbn [idx_bits]; [cbn in Hi; cbn; lia|].
  assert (G: forall p b, path_index (p ++ [b]) = 2 * path_index p + (if b then 1 else 0)).
  { induction p as [|c p IHp]; intros b; cbn [app path_index length]; [destruct b; cbn; lia|].
    rewrite IHp, app_length. cbn [length]. rewrite Nat.add_1_r, Nat.pow_succ_r'. destruct c; lia. }
  rewrite G, IH.
  - rewrite (Nat.div2_odd i) at 3. destruct (Nat.odd i); cbn [Nat.b2n]; lia.
  - rewrite Nat.pow_succ_r' in Hi. rewrite (Nat.div2_odd i) in Hi. destruct (Nat.odd i); cbn [Nat.b2n] in Hi; lia.
Qed.

(* completeness: the proof of leaf i climbs from the hash of block i to the dense root *)
Theorem dense_proof_verifies k blocks i : length blocks <= 2 ^ k -> i < 2 ^ k ->
  dense_climb (dense_proof k blocks i) i (hash_data (nth i (blocks ++ repeat [] (2 ^ k - length blocks)) []))
  = dense_root k blocks.
Proof.
  intros Hl Hi. rewrite dense_climb_is_climb. unfold dense_proof. rewrite rev_involutive, rev_length.
  set (m := leaf_at (blocks ++ repeat [] (2 ^ k - length blocks))).
  assert (Hlen: length (proof H hash_data hash_node k m (idx_bits k i)) = k).
  { assert (G: forall d m key, length key = d -> length (proof H hash_data hash_node d m key) = d).
    { induction d as [|d IHd]; intros m0 [|b key] Hk; try discriminate; cbn [proof length]; [reflexivity|].
      injection Hk as Hk. rewrite IHd by exact Hk. reflexivity. }
    apply G. apply idx_bits_length. }
  rewrite Hlen, dense_root_is_root by exact Hl. fold m.
  assert (E: m (idx_bits k i) = nth i (blocks ++ repeat [] (2 ^ k - length blocks)) []).
  { unfold m, leaf_at. rewrite path_index_bits by exact Hi. reflexivity. }
  rewrite <- E. apply proof_complete. apply idx_bits_length.
Qed.

(* soundness for a collision-free hash: a proof of the right length that climbs from v at index i to the dense
   root shows that v is block i *)
Theorem dense_proof_sound k blocks i (p : list H) v :
  (forall a b a' b', hash_node a b = hash_node a' b' -> a = a' /\ b = b') ->
  (forall x y, hash_data x = hash_data y -> x = y) ->
  length blocks <= 2 ^ k -> i < 2 ^ k -> length p = k ->
  dense_climb p i (hash_data v) = dense_root k blocks ->
  v = nth i (blocks ++ repeat [] (2 ^ k - length blocks)) [].
Proof.
  intros Hn Hd Hl Hi Hp Hc. rewrite dense_climb_is_climb, dense_root_is_root in Hc by exact Hl. rewrite Hp in Hc.
  pose proof (proof_sound H hash_data hash_node Hn Hd k (leaf_at (blocks ++ repeat [] (2 ^ k - length blocks)))
                (idx_bits k i) (rev p) v (idx_bits_length k i)) as S.
  rewrite rev_length in S. specialize (S Hp Hc). rewrite S. unfold leaf_at. rewrite path_index_bits by exact Hi. reflexivity.
Qed.
End Dense.

"""Per-property orchestration and verdict (DESIGN.md 3.3)."""
import os, json, time, re, glob
from props import PROPS, TRUSTED_BASE, REFLECT_CLASS, REFLECT_TIE

def load_sidecar(d, name):
    try:
        return json.load(open(os.path.join(d, name + ".json")))
    except Exception:
        return []

def case_text(d, name, idx):
    """the Gallina record of case idx in file name.v (one record per line between `[` and `]`)"""
    try:
        lines = open(os.path.join(d, name + ".v")).read().split("\n")
        start = next(i for i, l in enumerate(lines) if l.startswith("Definition cases"))
        return lines[start + 1 + idx].rstrip(";")[:20000]
    except Exception:
        return None

def run_property(C, pid, tier, seed, replay):
    t0 = time.time()
    cfg = PROPS[pid]
    ROOT = C.ROOT
    notes, broken = [], []          # broken: proof obligations / tie that no longer check
    # ---- 1. translator
    rc, out = C.gen_tables()
    if rc != 0:
        broken.append({"kind": "translator", "what": out})
    # ---- 2. proofs
    rc, out = C.coq_build(cfg.get("coq_targets", []) + ["Cases/Lib.vo"] + cfg.get("case_libs", []))
    if rc != 0:
        errs = re.findall(r'File "([^"]+)", line (\d+).*?\n(Error:.*?)(?:\n\n|\nmake)', out, flags=re.S)
        broken.append({"kind": "coq-build", "what": [f"{f}:{l}: {e[:300]}" for f, l, e in errs][:5] or out[-1500:]})
    bad = C.audit_sources()
    if bad:
        broken.append({"kind": "audit", "what": bad[:10]})
    problems, thms, axioms, plog, pin = C.check_property_file(pid)
    if problems:
        broken.append({"kind": "property-file", "what": problems, "log": plog[-1500:]})
    discharged = len(thms) if not problems and rc == 0 else 0
    # thorough tier: the independent checker re-checks the compiled property file and everything it depends on
    coqchk = None
    if tier == "thorough" and not problems and rc == 0:
        coqchk = C.run_coqchk(pid)
        if not coqchk["ok"]:
            broken.append({"kind": "coqchk", "what": coqchk["summary"]})
    # ---- 3. correspondence + reflections on the real code
    evaluations, nontrivial, samples = 0, 0, []
    corr_fail, violations, known_hits = [], [], {}
    stream_stats = {}
    known, fixed = C.load_known()
    known_classes = {k["class"]: k for k in known if k.get("property") == pid}
    profiles = cfg.get("profiles", {"quick": ["debug"], "thorough": ["debug"]})[tier]
    for stream, mask in cfg["streams"]:
        for profile in profiles if stream in cfg.get("release_streams", []) else ["debug"]:
            r = C.run_stream(stream, tier, seed, profile)
            if not r["ok"]:
                broken.append({"kind": "harness", "what": r.get("error"), "log": r.get("log", "")[-1500:]})
                continue
            d = r["dir"]
            stream_stats[f"{stream}/{profile}"] = r["meta"].get("stats", {})
            for name, fr in sorted(r["files"].items()):
                side = load_sidecar(d, name)
                evaluations += len(side)
                for i, m in enumerate(side):
                    if isinstance(m, dict):
                        if m.get("nontrivial", True):
                            nontrivial += 1
                        v = (m.get("violates") or {}).get(pid) if "step_violations" not in m else None
                        cls = m.get("class") or []
                        if v:
                            hit = [c for c in cls if c in known_classes]
                            if hit:
                                known_hits.setdefault(hit[0], []).append((name, i, v))
                            else:
                                violations.append({"stream": stream, "file": name, "index": i, "what": v, "case": m, "model_case": case_text(d, name, i)})
                # reflections evaluated by the model on the real observations (stf stream): (loc, property, detail)
                for loc, prop, detail in fr.get("reflect", []):
                    if "C%02d" % prop != pid:
                        continue
                    sci, step = loc // 1000, loc % 1000
                    m = side[sci] if sci < len(side) and isinstance(side[sci], dict) else {}
                    cls = [c for st_, c in m.get("step_classes", []) if st_ == step]
                    cls += REFLECT_CLASS.get((pid, detail), [])
                    hit = [c for c in cls if c in known_classes]
                    ops = m.get("ops", [])
                    what = f"reflection {pid} clause {detail} fails on the implementation's own observation: scenario {m.get('scenario')} step {step} ({ops[step] if step < len(ops) else '?'})"
                    if hit:
                        known_hits.setdefault(hit[0], []).append((name, loc, what))
                    elif (pid, detail) in REFLECT_TIE:
                        # not a property clause but a tie between a definition the theorems are stated with and the code
                        corr_fail.append({"stream": stream, "profile": profile, "file": name, "index": loc, "code": detail,
                                          "case": {"scenario": m.get("scenario"), "tie": REFLECT_TIE[(pid, detail)]}, "model_case": None})
                    else:
                        violations.append({"stream": stream, "file": name, "scenario": m.get("scenario"), "step": step, "what": what,
                                           "ops_so_far": ops[:step + 1], "coq_case_file": os.path.join(d, name + ".v")})
                # property checks made by the harness on the implementation alone (per step)
                for m in side:
                    if not isinstance(m, dict):
                        continue
                    for step, prop, what in m.get("step_violations", []):
                        if prop != pid:
                            continue
                        cls = [c for st_, c in m.get("step_classes", []) if st_ == step]
                        hit = [c for c in cls if c in known_classes]
                        if hit:
                            known_hits.setdefault(hit[0], []).append((name, step, what))
                        else:
                            ops = m.get("ops", [])
                            violations.append({"stream": stream, "file": name, "scenario": m.get("scenario"), "step": step, "what": what,
                                               "ops_so_far": ops[:step + 1], "coq_case_file": os.path.join(d, name + ".v")})
                if "error" in fr:
                    broken.append({"kind": "model-eval", "what": f"{stream}/{name}: {fr['error'][-600:]}"})
                    continue
                for idx, code in fr["failing"]:
                    if code & mask:
                        sidx = idx // 1000 if stream == "stf" else idx
                        m = side[sidx] if sidx < len(side) else {}
                        cls = (m.get("class") or []) if isinstance(m, dict) else []
                        hit = [c for c in cls if c in known_classes]
                        ent = {"stream": stream, "profile": profile, "file": name, "index": idx, "code": code & mask, "case": m, "model_case": case_text(d, name, idx)}
                        if hit and cfg.get("corr_is_violation"):
                            known_hits.setdefault(hit[0], []).append((name, idx, "model/implementation differ"))
                        else:
                            corr_fail.append(ent)
            if len(samples) < 3 and r["files"]:
                name = sorted(r["files"])[len(r["files"]) // 2]
                side = load_sidecar(d, name)
                if side:
                    samples.append({"stream": stream, "case": side[len(side) // 2]})
    # ---- 4. verdict
    os.makedirs(os.path.join(ROOT, "replays"), exist_ok=True)
    rp = os.path.join(ROOT, "replays", f"{pid}-{tier}-{seed}.json")
    verdict, line = "ok", None
    if cfg.get("corr_is_violation") and corr_fail:
        violations += [dict(c, what="implementation differs from the reference semantics (model)") for c in corr_fail]
    if violations:
        verdict = "violation"
        json.dump({"property": pid, "tier": tier, "seed": seed, "kind": "failing-input", "violations": violations[:20],
                   "how_to_replay": f"VERIF_SEED={seed} ./check {pid} --tier {tier}"}, open(rp, "w"), indent=1, default=str)
        line = f"VIOLATION property={pid} replay={rp}"
    elif broken or corr_fail:
        verdict = "unproved"
        json.dump({"property": pid, "tier": tier, "seed": seed, "kind": "broken-obligation",
                   "no_longer_checks": broken, "correspondence_differences": corr_fail[:20],
                   "note": "the proof or the model/code correspondence is broken and the search found no input on which the implementation itself violates the property"},
                  open(rp, "w"), indent=1, default=str)
        line = f"VIOLATION property={pid} replay={rp} no-failing-input-found"
    for cls, k in sorted(known_classes.items()):
        if cls in known_hits:
            print(f"KNOWN-FINDING: property={pid} {k['text'].split(' ', 3)[-1]} [{len(known_hits[cls])} case(s) this run, e.g. {known_hits[cls][0][0]}#{known_hits[cls][0][1]}]")
        else:
            print(f"KNOWN-FINDING: property={pid} {k['text'].split(' ', 3)[-1]} [witness not exercised by this run's streams]")
    # ---- 5. evidence
    ev = {
        "property_id": pid, "tier": tier, "seed": seed, "level": cfg.get("level", "proof"),
        "coverage": {
            "obligations": max(len(thms), 1), "discharged": discharged,
            "checker_cmd": f"make -C coq (coqc 8.16.1, full .vo build) + coqc Properties/{pid}.v with Print Assumptions; ./check {pid} --tier {tier}",
            "trusted_base": TRUSTED_BASE + cfg.get("trusted", []),
            "theorems": thms, "axioms_reported": axioms, "statement_pin": pin,
            "coqchk": coqchk if coqchk is not None else "thorough tier only (coqchk -o on the property file and its whole dependency cone)",
            "evaluations": evaluations, "distinct_nontrivial": nontrivial,
            "rule": cfg.get("rule", ""), "samples": samples or [{"note": "no stream for this property"}],
            "exhaustive": bool(cfg.get("exhaustive_part")),
            "explanation": cfg.get("explanation", ""),
            "streams": stream_stats,
            "correspondence_differences": len(corr_fail), "broken_obligations": broken,
            "known_finding_cases": {k: len(v) for k, v in known_hits.items()},
        },
        "assumptions": cfg.get("assumptions", []),
        "wall_s": round(time.time() - t0, 2),
        "violations": len(violations) if violations else (1 if verdict != "ok" else 0),
    }
    os.makedirs(os.path.join(ROOT, "evidence"), exist_ok=True)
    json.dump(ev, open(os.path.join(ROOT, "evidence", f"{pid}.json"), "w"), indent=1, default=str)
    print(f"{pid}: theorems {discharged}/{len(thms)} checked, {evaluations} cases on the implementation, {len(corr_fail)} model/impl differences, verdict {verdict}, {time.time()-t0:.0f}s")
    if line:
        print(line)
        return 1
    return 0

#!/usr/bin/env python3
"""Translator: regenerates coq/Generated.v from /repo's current sources.

Re-derived on every run:
  * lib/melvm/src/consts.rs      -> opcode_byte, heap addresses
  * lib/melvm/src/opcode.rs      -> operand shape of every encode arm and every decode arm,
                                    per-opcode weight expression of opcodes_car_weight
  * src/tip_heights.rs           -> TIP activation heights
Anything it cannot recognise stops it with a line `UNTRANSLATABLE <file>: <what>` and exit 3;
the driver treats that as a broken tie (DESIGN.md 3.3).  Part of the trusted base.
"""
import re, sys, os

REPO = os.environ.get("VERIF_REPO", "/repo")

class Untranslatable(Exception):
    pass

def norm(s):
    return re.sub(r"\s+", "", s)

def strip_comments(src):
    src = re.sub(r"//[^\n]*", "", src)
    src = re.sub(r"/\*.*?\*/", "", src, flags=re.S)
    return src

def strip_hooks(src):
    """removes items/statements guarded by #[cfg(melstf_verif)] (the verification hooks)"""
    out = []
    i = 0
    tag = "#[cfg(melstf_verif)]"
    while True:
        j = src.find(tag, i)
        if j < 0:
            out.append(src[i:])
            break
        out.append(src[i:j])
        k = j + len(tag)
        # the guarded item ends at the first `;` at depth 0 or at the end of its first balanced `{}` block
        depth = 0
        while k < len(src):
            c = src[k]
            if c == "{":
                k = match_brace(src, k)
                break
            if c == ";":
                k += 1
                break
            k += 1
        i = k
    return "".join(out)

def match_brace(src, i):
    """src[i] == '{' -> index just after the matching '}'"""
    assert src[i] == "{"
    depth = 0
    j = i
    while j < len(src):
        c = src[j]
        if c == "{":
            depth += 1
        elif c == "}":
            depth -= 1
            if depth == 0:
                return j + 1
        elif c == '"':
            j += 1
            while src[j] != '"':
                if src[j] == "\\":
                    j += 1
                j += 1
        j += 1
    raise Untranslatable("unbalanced braces")

def fn_body(src, header_re, fname):
    m = re.search(header_re, src)
    if not m:
        raise Untranslatable(f"{fname}: cannot find {header_re}")
    i = src.index("{", m.end() - 1)
    return src[i + 1: match_brace(src, i) - 1]

def match_arms(body, fname):
    """splits the first `match ... { arms }` of body into (pattern, rhs) pairs"""
    m = re.search(r"\bmatch\b[^{]*\{", body)
    if not m:
        raise Untranslatable(f"{fname}: no match")
    i = m.end() - 1
    inner = body[i + 1: match_brace(body, i) - 1]
    arms = []
    pos = 0
    n = len(inner)
    while pos < n:
        while pos < n and inner[pos] in " \t\r\n,":
            pos += 1
        if pos >= n:
            break
        # attribute lines (#[cfg(feature = "print")]) + their arm are skipped
        skip = False
        if inner.startswith("#[", pos):
            end = inner.index("]", pos)
            attr = inner[pos:end + 1]
            if 'feature = "print"' not in attr:
                raise Untranslatable(f"{fname}: unexpected attribute {attr}")
            pos = end + 1
            skip = True
            while inner[pos] in " \t\r\n":
                pos += 1
        arrow = inner.find("=>", pos)
        if arrow < 0:
            raise Untranslatable(f"{fname}: arm without =>")
        pat = inner[pos:arrow].strip()
        pos = arrow + 2
        while inner[pos] in " \t\r\n":
            pos += 1
        if inner[pos] == "{":
            end = match_brace(inner, pos)
            rhs = inner[pos:end]
            pos = end
        else:
            depth = 0
            j = pos
            while j < n:
                c = inner[j]
                if c in "([{":
                    depth += 1
                elif c in ")]}":
                    depth -= 1
                elif c == "," and depth == 0:
                    break
                j += 1
            rhs = inner[pos:j]
            pos = j + 1
        if not skip:
            arms.append((pat, rhs.strip()))
    return arms

# ---------------------------------------------------------------- consts.rs
def parse_consts():
    src = strip_comments(open(f"{REPO}/lib/melvm/src/consts.rs").read())
    ops = {}
    for m in re.finditer(r"(#\[cfg\(feature = \"print\"\)\]\s*)?pub\(crate\) const (OPCODE_\w+): u8 = (0x[0-9a-fA-F]+|\d+);", src):
        if m.group(1):
            continue
        ops[m.group(2)] = int(m.group(3), 0)
    haddr = {}
    for m in re.finditer(r"pub const (HADDR_\w+): u16 = (0x[0-9a-fA-F]+|\d+);", src):
        haddr[m.group(1)] = int(m.group(2), 0)
    return ops, haddr

TAGS = """Noop Add Sub Mul Div Rem Exp And Or Xor Not Eql Lt Gt Shl Shr Hash SigEOk Store Load StoreImm LoadImm
VRef VAppend VEmpty VLength VSlice VSet VPush VCons BRef BAppend BEmpty BLength BSlice BSet BPush BCons
Bez Bnz Jmp Loop ItoB BtoI TypeQ PushB PushI PushIC Dup""".split()

EXPECT_ENC = {
    "PushB": norm("""{ if bts.len() > 255 { return Err(EncodeError::TooManyBytes); }
        output.write_all(&[%s]).unwrap(); output.write_all(&[bts.len() as u8]).unwrap(); output.write_all(bts).unwrap(); }"""),
    "PushI": norm("""{ output.write_all(&[%s]).unwrap(); output.write_all(&i.to_be_bytes()).unwrap(); }"""),
    "PushIC": norm("""{ output.write_all(&[%s]).unwrap(); let bytes_repr = i.to_be_bytes();
        let leading_zeros = bytes_repr.iter().take_while(|i| **i == 0).count();
        output.write_all(&[32 - (leading_zeros as u8)]).unwrap(); output.write_all(&bytes_repr[leading_zeros..]).unwrap(); }"""),
}
EXPECT_DEC = {
    "Loop": norm("""{ let iterations = u16arg(input)?; let count = u16arg(input)?; Ok(OpCode::Loop(iterations, count)) }"""),
    "PushB": norm("""{ let strlen = read_byte(input)?; let mut blit = vec![0u8; strlen as usize]; input.read_exact(&mut blit)?; Ok(OpCode::PushB(blit)) }"""),
    "PushI": norm("""{ let mut buf = [0; 32]; input.read_exact(&mut buf)?; Ok(OpCode::PushI(U256::from_be_bytes(buf))) }"""),
    "PushIC": norm("""{ let mut buf = [0; 32]; let nonzero_len = read_byte(input)?;
        if nonzero_len > 32 { return Err(DecodeError::InvalidVarint); }
        let blit = &mut buf[..nonzero_len as usize]; input.read_exact(blit)?;
        if blit.len() > 32 { return Err(DecodeError::InvalidVarint); }
        blit.reverse(); let integ = U256::from_le_bytes(buf);
        if 32 - (integ.leading_zeros() / 8) != nonzero_len as u32 { return Err(DecodeError::InvalidVarint); }
        Ok(OpCode::PushIC(integ)) }"""),
}
EXPECT_ARGFN = {
    "u16arg": norm("""|input: &mut T| { let mut buffer: [u8; 2] = [0; 2]; input.read_exact(&mut buffer)?; Ok::<_, DecodeError>(u16::from_be_bytes(buffer)) }"""),
    "u8arg": norm("""|input: &mut T| { let mut buffer: [u8; 1] = [0; 1]; input.read_exact(&mut buffer)?; Ok::<_, DecodeError>(u8::from_be_bytes(buffer)) }"""),
}
EXPECT_LOOP_WEIGHT = norm("""{ let sum = opcodes_weight(&rest[..(*body_len as usize).min(rest.len())]);
        (sum.saturating_mul(*iters as u128).saturating_add(1), rest) }""")
EXPECT_WEIGHT_FN = norm("""let (mut sum, mut rest) = opcodes_car_weight(opcodes);
    while !rest.is_empty() { let (delta_sum, new_rest) = opcodes_car_weight(rest); rest = new_rest; sum = sum.saturating_add(delta_sum); } sum""")

def parse_enum(src):
    body = fn_body(src, r"pub enum OpCode\s*\{", "opcode.rs")
    types = {}
    body = re.sub(r"#\[cfg\(feature = \"print\"\)\]\s*Print\s*,", "", body)
    for m in re.finditer(r"(\w+)\s*(\(([^)]*)\))?\s*,", body):
        name = m.group(1)
        args = [a.strip() for a in m.group(3).split(",")] if m.group(3) else []
        types[name] = args
    return types

def shape_of_types(name, args):
    if args == []:
        return "SNone"
    if args == ["u8"]:
        return "SU8"
    if args == ["u16"]:
        return "SU16"
    if args == ["u16", "u16"]:
        return "SU16U16"
    if args == ["Vec<u8>"]:
        return "SBytes"
    if args == ["U256"]:
        return None  # PushI / PushIC: decided by the arm
    raise Untranslatable(f"opcode.rs: OpCode::{name} has operand types {args}")

def parse_opcode_rs(opbytes):
    src = strip_comments(open(f"{REPO}/lib/melvm/src/opcode.rs").read())
    src = strip_hooks(src.split("#[cfg(test)]")[0])
    types = parse_enum(src)
    if sorted(types) != sorted(TAGS):
        raise Untranslatable(f"opcode.rs: OpCode variants {sorted(set(types) ^ set(TAGS))} differ from the model's constructors")

    # ---- encode
    enc = fn_body(src, r"pub fn encode\s*\(", "opcode.rs encode")
    tag_byte, enc_shape = {}, {}
    for pat, rhs in match_arms(enc, "opcode.rs encode"):
        m = re.fullmatch(r"OpCode::(\w+)\s*(\(([^)]*)\))?", pat)
        if not m:
            raise Untranslatable(f"opcode.rs encode: pattern {pat}")
        name = m.group(1)
        vars_ = [v.strip() for v in m.group(3).split(",")] if m.group(3) else []
        consts = re.findall(r"OPCODE_\w+", rhs)
        if len(set(consts)) != 1 or consts[0] not in opbytes:
            raise Untranslatable(f"opcode.rs encode: arm {name} mentions {consts}")
        tag_byte[name] = opbytes[consts[0]]
        c = consts[0]
        nrhs = norm(rhs)
        first = norm(f"output.write_all(&[{c}]).unwrap()")
        if name in EXPECT_ENC:
            if nrhs != EXPECT_ENC[name] % c:
                raise Untranslatable(f"opcode.rs encode: arm {name} has an unrecognised body")
            enc_shape[name] = {"PushB": "SBytes", "PushI": "SInt32", "PushIC": "SIntC"}[name]
            continue
        if nrhs == first:
            sh = "SNone"
        else:
            writes = [norm(w) for w in re.findall(r"output\s*\.write_all\((.*?)\)\s*\.unwrap\(\)", rhs, flags=re.S)]
            if writes[0] != norm(f"&[{c}]") or nrhs.strip("{}").replace(";", "") != "".join(
                    norm(f"output.write_all({w}).unwrap()") for w in writes).replace(";", ""):
                raise Untranslatable(f"opcode.rs encode: arm {name} has an unrecognised body")
            got = writes[1:]
            want = [norm(f"&{v}.to_be_bytes()") for v in vars_]
            if got != want:
                raise Untranslatable(f"opcode.rs encode: arm {name} writes {got}, expected {want}")
            sh = shape_of_types(name, types[name])
        if sh != shape_of_types(name, types[name]):
            raise Untranslatable(f"opcode.rs encode: arm {name} shape {sh} vs operand types {types[name]}")
        enc_shape[name] = sh
    if sorted(enc_shape) != sorted(TAGS):
        raise Untranslatable(f"opcode.rs encode: arms {sorted(set(enc_shape) ^ set(TAGS))}")

    # ---- decode
    dec = fn_body(src, r"pub fn decode\s*<", "opcode.rs decode")
    for fn in ("u16arg", "u8arg"):
        m = re.search(r"let %s = (\|input: &mut T\| \{.*?\n        \});" % fn, dec, flags=re.S)
        if not m or norm(m.group(1)) != EXPECT_ARGFN[fn]:
            raise Untranslatable(f"opcode.rs decode: helper {fn} has an unrecognised body")
    mpos = dec.index("match read_byte(input)?")
    dec_shape, dec_byte = {}, {}
    byname = {v: k for k, v in opbytes.items()}
    for pat, rhs in match_arms(dec[mpos:], "opcode.rs decode"):
        if pat == "b":
            if norm(rhs) != norm("Err(DecodeError::InvalidOpcode(b))"):
                raise Untranslatable("opcode.rs decode: fallback arm")
            continue
        if pat not in opbytes:
            raise Untranslatable(f"opcode.rs decode: pattern {pat}")
        names = set(re.findall(r"OpCode::(\w+)", rhs))
        if len(names) != 1:
            raise Untranslatable(f"opcode.rs decode: arm {pat} builds {names}")
        name = names.pop()
        if name in dec_shape:
            raise Untranslatable(f"opcode.rs decode: two arms build {name}")
        dec_byte[name] = opbytes[pat]
        nrhs = norm(rhs)
        if name in EXPECT_DEC:
            if nrhs != EXPECT_DEC[name]:
                raise Untranslatable(f"opcode.rs decode: arm {name} has an unrecognised body")
            dec_shape[name] = {"Loop": "SU16U16", "PushB": "SBytes", "PushI": "SInt32", "PushIC": "SIntC"}[name]
        elif nrhs == norm(f"Ok(OpCode::{name})"):
            dec_shape[name] = "SNone"
        elif nrhs == norm(f"Ok(OpCode::{name}(u8arg(input)?))"):
            dec_shape[name] = "SU8"
        elif nrhs == norm(f"Ok(OpCode::{name}(u16arg(input)?))"):
            dec_shape[name] = "SU16"
        else:
            raise Untranslatable(f"opcode.rs decode: arm {name} has an unrecognised body")
    # a variant without a decode arm simply cannot be decoded: shape SNone with no byte -> recorded as undecodable
    return types, tag_byte, enc_shape, dec_byte, dec_shape, src

def tr_expr(e, vars_):
    """Rust u128 expression of a weight arm -> Gallina"""
    e = e.strip()
    m = re.fullmatch(r"(\d+)(u128)?", e)
    if m:
        return m.group(1)
    m = re.fullmatch(r"\*(\w+) as u128", e)
    if m and m.group(1) in vars_:
        return m.group(1)
    m = re.fullmatch(r"\*(\w+) as u128 \+ (\d+)", e)
    if m and m.group(1) in vars_:
        # u8/u16 widened to u128 plus a small literal cannot overflow
        return f"({m.group(1)} + {m.group(2)})"
    m = re.fullmatch(r"(\d+)u128\s*\.(saturating_add|saturating_mul)\((.*)\)", e, flags=re.S)
    if m:
        f = {"saturating_add": "sat_add128", "saturating_mul": "sat_mul128"}[m.group(2)]
        return f"({f} {m.group(1)} {tr_expr(m.group(3), vars_)})"
    raise Untranslatable(f"opcode.rs opcodes_car_weight: expression `{e}`")

def parse_weights(src, types):
    if norm(fn_body(src, r"pub fn opcodes_weight\s*\(", "opcodes_weight")) != EXPECT_WEIGHT_FN:
        raise Untranslatable("opcode.rs opcodes_weight: unrecognised body")
    body = fn_body(src, r"fn opcodes_car_weight\s*\(", "opcodes_car_weight")
    head = body[:body.index("match first")]
    if norm(head) != norm("if opcodes.is_empty() { return (0, opcodes); } let (first, rest) = opcodes.split_first().unwrap();"):
        raise Untranslatable("opcode.rs opcodes_car_weight: unrecognised prologue")
    w = {}
    for pat, rhs in match_arms(body[body.index("match first"):], "opcodes_car_weight"):
        m = re.fullmatch(r"OpCode::(\w+)\s*(\(([^)]*)\))?", pat)
        if not m:
            raise Untranslatable(f"opcodes_car_weight: pattern {pat}")
        name = m.group(1)
        vars_ = [v.strip() for v in m.group(3).split(",")] if m.group(3) else []
        if name == "Loop":
            if vars_ != ["iters", "body_len"] or norm(rhs) != EXPECT_LOOP_WEIGHT:
                raise Untranslatable("opcodes_car_weight: Loop arm has an unrecognised body")
            continue
        mm = re.fullmatch(r"\(\s*(.*?),\s*rest,?\s*\)", rhs, flags=re.S)
        if not mm:
            raise Untranslatable(f"opcodes_car_weight: arm {name} does not return (w, rest)")
        if len(vars_) != len(types[name]):
            raise Untranslatable(f"opcodes_car_weight: arm {name} binds {vars_}")
        w[name] = (vars_, tr_expr(mm.group(1), [v for v in vars_ if v != "_"]))
    missing = set(TAGS) - set(w) - {"Loop"}
    if missing:
        raise Untranslatable(f"opcodes_car_weight: no arm for {sorted(missing)}")
    return w

def parse_tips():
    src = strip_comments(open(f"{REPO}/src/tip_heights.rs").read())
    tips = {}
    for m in re.finditer(r"pub const (TIP_\w+_HEIGHT): BlockHeight = BlockHeight\((u64::MAX|\d+)\);", src):
        tips[m.group(1)] = (2**64 - 1) if m.group(2) == "u64::MAX" else int(m.group(2))
    for k in ("TIP_901_HEIGHT", "TIP_902_HEIGHT", "TIP_906_HEIGHT", "TIP_908_HEIGHT", "TIP_909_HEIGHT", "TIP_909A_HEIGHT"):
        if k not in tips:
            raise Untranslatable(f"tip_heights.rs: {k} not found")
    return tips

def parse_bug_tx():
    """the one grandfathered faucet transaction of mainnet (applytx.rs INFLATION_BUG_TX_HASH)"""
    src = strip_comments(open(f"{REPO}/src/state/applytx.rs").read())
    m = re.search(r'const INFLATION_BUG_TX_HASH: &str =\s*"([0-9a-f]{64})";', src)
    if not m:
        raise Untranslatable("applytx.rs: INFLATION_BUG_TX_HASH not found")
    return int(m.group(1), 16), m.group(1)

def main(out):
    opbytes, haddr = parse_consts()
    types, enc_byte, enc_shape, dec_byte, dec_shape, src = parse_opcode_rs(opbytes)
    weights = parse_weights(src, types)
    tips = parse_tips()
    L = []
    L.append("(* GENERATED by tools/gen_tables.py from /repo -- do not edit *)")
    L.append("From MelVerif Require Import VM.Op.")
    L.append("Open Scope N_scope.")
    L.append("")
    L.append("(* opcode byte written by OpCode::encode *)")
    L.append("Definition opcode_byte (t : tag) : N :=\n  match t with")
    for t in TAGS:
        L.append(f"  | T{t} => {enc_byte[t]}")
    L.append("  end.\n")
    L.append("(* opcode byte whose OpCode::decode arm builds the constructor (None: no arm) *)")
    L.append("Definition dec_byte (t : tag) : option N :=\n  match t with")
    for t in TAGS:
        L.append(f"  | T{t} => " + (f"Some {dec_byte[t]}" if t in dec_byte else "None"))
    L.append("  end.\n")
    L.append("Definition enc_shape (t : tag) : shape :=\n  match t with")
    for t in TAGS:
        L.append(f"  | T{t} => {enc_shape[t]}")
    L.append("  end.\n")
    L.append("Definition dec_shape (t : tag) : shape :=\n  match t with")
    for t in TAGS:
        L.append(f"  | T{t} => {dec_shape.get(t, 'SNone')}")
    L.append("  end.\n")
    L.append("(* first component of opcodes_car_weight for every non-Loop opcode *)")
    L.append("Definition base_weight (o : op) : N :=\n  match o with")
    for t in TAGS:
        if t == "Loop":
            L.append("  | Loop _ _ => 0")
            continue
        vars_, expr = weights[t]
        pat = t + "".join(" " + v for v in vars_)
        L.append(f"  | {pat} => {expr}")
    L.append("  end.\n")
    for k, v in sorted(haddr.items()):
        L.append(f"Definition {k} : N := {v}.")
    L.append("")
    for k, v in sorted(tips.items()):
        L.append(f"Definition {k} : N := {v}.")
    L.append("")
    bug, bughex = parse_bug_tx()
    L.append(f"(* INFLATION_BUG_TX_HASH = 0x{bughex} *)")
    L.append(f"Definition BUG_TX_HASH : N := {bug}.")
    L.append("")
    text = "\n".join(L)
    old = open(out).read() if os.path.exists(out) else None
    if old != text:
        with open(out, "w") as f:
            f.write(text)
    return 0

if __name__ == "__main__":
    out = sys.argv[1] if len(sys.argv) > 1 else "/verif/coq/Generated.v"
    try:
        sys.exit(main(out))
    except Untranslatable as e:
        print(f"UNTRANSLATABLE {e}")
        sys.exit(3)

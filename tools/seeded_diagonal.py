#!/usr/bin/env python3
"""Apply each seeded change to /repo's working tree, run the quick check of the property it was written against,
undo the change.  Writes seeded/DIAGONAL.md.  Never commits anything in /repo."""
import json, os, subprocess, sys, glob
V = os.path.dirname(os.path.dirname(os.path.abspath(__file__)))
def sh(*a, **k): return subprocess.run(a, capture_output=True, text=True, **k)
def clean():
    sh("git", "-C", "/repo", "checkout", "--", ".")
    return sh("git", "-C", "/repo", "status", "--short").stdout.strip() == ""
dirs = sorted(d for d in glob.glob(os.path.join(V, "seeded", "C*")) if os.path.isdir(d))
only = sys.argv[1:]
assert clean()
rows = []
for d in dirs:
    sid = os.path.basename(d)
    if only and not any(sid.startswith(o) for o in only): continue
    pid = sid[:3]
    r = sh("git", "-C", "/repo", "apply", os.path.join(d, "patch.diff"))
    if r.returncode != 0:
        rows.append((sid, pid, "PATCH DOES NOT APPLY", "")); print(sid, "PATCH DOES NOT APPLY", flush=True); continue
    try:
        c = sh(os.path.join(V, "check"), pid, "--tier", "quick", cwd=V)
        vio = [l for l in c.stdout.splitlines() if l.startswith("VIOLATION")]
        kind = "pass" if c.returncode == 0 and not vio else ("no-failing-input-found" if vio and vio[0].rstrip().endswith("no-failing-input-found") else "VIOLATION with replay")
        first = ""
        if kind != "pass":
            try:
                j = json.load(open(os.path.join(V, "replays", f"{pid}-quick-1.json")))
                v = j.get("violations") or []
                first = (v[0].get("what") if v else str(j.get("no_longer_checks") or j.get("note")))[:160]
            except Exception: pass
    finally:
        ok = clean()
    rows.append((sid, pid, kind, first)); print(sid, pid, kind, "|", first, flush=True)
    assert ok
with open(os.path.join(V, "seeded", "DIAGONAL.md"), "w") as f:
    f.write("Quick tier of the check of its own property against every seeded change (applied to /repo's working tree, then undone).\n\n| seeded change | check | verdict | first reported |\n|---|---|---|---|\n")
    for r in rows: f.write("| %s | %s | %s | %s |\n" % (r[0], r[1], r[2], r[3].replace("|", "/")))

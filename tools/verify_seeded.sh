#!/bin/bash
# usage: verify_seeded.sh <seeded dir>   -- confirms a seeded change in a scratch worktree:
#   compiles, the baseline tests that pass still pass, the demonstration fails with the change and passes without
set -u
D=$(realpath "$1"); ID=$(basename "$D"); W=/tmp/vs_$ID
rm -rf "$W"; git -C /repo worktree prune; git -C /repo worktree add -q --detach "$W" HEAD || exit 2
cd "$W"
demo=$(ls "$D"/seeded_*.rs | head -1); name=$(basename "$demo" .rs)
if grep -q "melvm" <<<"$(head -c 0 /dev/null)"; then :; fi
if grep -q "^use melvm\|melvm::" "$demo" && ! grep -q "melstf" "$demo"; then PKG="-p melvm"; mkdir -p lib/melvm/tests; cp "$demo" lib/melvm/tests/; else PKG=""; mkdir -p tests; cp "$demo" tests/; fi
export CARGO_TARGET_DIR=$W/target CARGO_NET_OFFLINE=true
echo "## without the change: demo"; cargo test --offline $PKG --test "$name" 2>&1 | grep -E "^test result|error(\[|:)" | head -5
git apply "$D/patch.diff" || { echo "PATCH DOES NOT APPLY"; exit 3; }
echo "## with the change: build + baseline"; cargo nextest run --workspace --no-fail-fast --test-threads 8 --offline 2>&1 | grep -E "Summary|^\s+FAIL" | sort | uniq | head -12
echo "## with the change: demo"; cargo test --offline $PKG --test "$name" 2>&1 | grep -E "^test result|error(\[|:)" | head -5
cd /; git -C /repo worktree remove --force "$W"; rm -rf "$W"

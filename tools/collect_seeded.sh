#!/bin/bash
# usage: collect_seeded.sh <worktree id under /tmp/mut> <name>   -- copies patch, demo and notes into /verif/seeded/<name>
set -e
W=/tmp/mut/$1; D=/verif/seeded/$2
mkdir -p $D
git -C $W diff > $D/patch.diff
cp $W/SEEDED.md $D/ 2>/dev/null || true
for f in $W/tests/seeded_*.rs $W/lib/melvm/tests/seeded_*.rs; do [ -f "$f" ] && cp "$f" $D/; done
ls $D; wc -l $D/patch.diff

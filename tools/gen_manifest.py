#!/usr/bin/env python3
"""Writes MANIFEST.json from tools/props.py (single source of per-property configuration)."""
import json, os, sys
sys.path.insert(0, os.path.dirname(os.path.abspath(__file__)))
from props import PROPS, MANIFEST_TEXT, NOT_YET
ROOT = os.path.dirname(os.path.dirname(os.path.abspath(__file__)))
allp = [json.loads(l)["id"] for l in open(os.path.join(ROOT, "properties.jsonl"))]
checks = []
for pid in allp:
    if pid not in PROPS or pid in NOT_YET:
        continue
    t = MANIFEST_TEXT[pid]
    checks.append({
        "property_id": pid,
        "quick_cmd": f"./check {pid} --tier quick",
        "thorough_cmd": f"./check {pid} --tier thorough",
        "evidence_file": f"evidence/{pid}.json",
        "replay_cmd_template": f"./check {pid} --replay {{path}}",
        "engine": "coq-model",
        "level_claimed": {"category": t.get("category", "proof"), "text": t["text"], "design_ref": t.get("design_ref", "DESIGN.md section 6")},
        "level_note": t["note"],
        "technique": t["technique"],
    })
man = {
    "version": 1,
    "setup_cmd": "./check setup",
    "hooks": {
        "guard": "melstf_verif",
        "enable": "RUSTFLAGS=\"--cfg melstf_verif\" (set by ./check when it builds harness/ against /repo)",
        "baseline_off_cmd": "cd /repo && cargo nextest run --workspace --no-fail-fast --test-threads 8 --offline || cargo test --workspace --no-fail-fast --offline",
        "source_commits": [l.strip() for l in open(os.path.join(ROOT, "tools", "hook_commits.txt")) if l.strip()],
        "add_only": True,
    },
    "engines": [{
        "name": "coq-model", "path": "coq/", "serves_properties": [c["property_id"] for c in checks],
        "kind_free_text": "Coq 8.16 model of melstf/melvm with machine-checked theorems (Properties/Cxx.v), tied to /repo by a table translator (tools/gen_tables.py) and a differential correspondence check (harness/ drives the real crates, coqc evaluates the model with vm_compute on the same inputs)",
    }],
    "checks": checks,
    "not_applicable": [{"property_id": p, "reason": NOT_YET.get(p, "check not built yet")} for p in allp if p not in [c["property_id"] for c in checks]],
    "notes": "See DESIGN.md. Every check: ./check <id> [--tier quick|thorough]. Known findings: known_findings.txt.",
}
json.dump(man, open(os.path.join(ROOT, "MANIFEST.json"), "w"), indent=1)
print("checks:", [c["property_id"] for c in checks])

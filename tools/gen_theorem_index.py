#!/usr/bin/env python3
"""Regenerates the per-property theorem index of DESIGN.md (between the THEOREM-INDEX markers) from coq/Properties/*.v."""
import re, os, glob
V = os.path.dirname(os.path.dirname(os.path.abspath(__file__)))
out = []
for f in sorted(glob.glob(os.path.join(V, "coq", "Properties", "C*.v"))):
    pid = os.path.basename(f)[:-2]
    src = open(f).read()
    title = re.search(r"\(\*\s*%s - (.*?)\n" % pid, src)
    thms = re.findall(r"^(Theorem|Example)\s+(\w+)", src, flags=re.M)
    proofs = dict(re.findall(r"Theorem\s+(\w+).*?Proof\.\s*exact\s+([\w.']+)\.", src, flags=re.S))
    out.append(f"* **{pid}** - {title.group(1).strip() if title else ''}")
    for kind, name in thms:
        if kind == "Theorem":
            out.append(f"  * `{name}` (= `{proofs.get(name, '?')}`)")
        else:
            out.append(f"  * `{name}` (example / non-vacuity witness)")
block = "\n".join(out)
p = os.path.join(V, "DESIGN.md")
s = open(p).read()
a, b = "<!-- THEOREM-INDEX-BEGIN -->", "<!-- THEOREM-INDEX-END -->"
assert a in s and b in s
s = s[:s.index(a) + len(a)] + "\n" + block + "\n" + s[s.index(b):]
open(p, "w").write(s)
print(len(out), "lines")

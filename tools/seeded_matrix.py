#!/usr/bin/env python3
"""Apply each seeded change to /repo's working tree, run every registered quick check, undo the change.
Writes seeded/<id>/results.json and seeded/MATRIX.md.  Never commits anything in /repo."""
import json, os, subprocess, sys, re, glob
V = os.path.dirname(os.path.dirname(os.path.abspath(__file__)))
PIDS = ["C%02d" % i for i in range(1, 21)]
def sh(*a, **k): return subprocess.run(a, capture_output=True, text=True, **k)
def clean():
    sh("git", "-C", "/repo", "checkout", "--", ".")
    return sh("git", "-C", "/repo", "status", "--short").stdout.strip() == ""
dirs = sorted(d for d in glob.glob(os.path.join(V, "seeded", "C*")) if os.path.isdir(d))
only = sys.argv[1:]
assert clean()
for d in dirs:
    sid = os.path.basename(d)
    if only and not any(sid.startswith(o) for o in only): continue
    r = sh("git", "-C", "/repo", "apply", os.path.join(d, "patch.diff"))
    if r.returncode != 0:
        print(sid, "PATCH DOES NOT APPLY", r.stderr); continue
    res = {}
    try:
        for p in PIDS:
            c = sh(os.path.join(V, "check"), p, "--tier", "quick", cwd=V)
            vio = [l for l in c.stdout.splitlines() if l.startswith("VIOLATION")]
            kind = "pass" if c.returncode == 0 and not vio else ("violation-no-input" if vio and vio[0].rstrip().endswith("no-failing-input-found") else "violation")
            res[p] = {"exit": c.returncode, "result": kind}
            if kind != "pass":
                rp = os.path.join(V, "replays", f"{p}-quick-1.json")
                try:
                    j = json.load(open(rp))
                    v = j.get("violations") or []
                    res[p]["first"] = (v[0].get("what") if v else (j.get("no_longer_checks") or j.get("note")))
                except Exception as e: res[p]["first"] = None
    finally:
        ok = clean()
    json.dump({"id": sid, "results": res, "tree_restored": ok}, open(os.path.join(d, "results.json"), "w"), indent=1)
    print(sid, " ".join(f"{p}:{'V' if v['result']=='violation' else ('n' if v['result']!='pass' else '.')}" for p, v in res.items()), flush=True)
# matrix
lines = ["| seeded change | " + " | ".join(p[1:] for p in PIDS) + " |", "|---|" + "---|" * len(PIDS)]
for d in dirs:
    f = os.path.join(d, "results.json")
    if not os.path.exists(f): continue
    j = json.load(open(f))
    sym = {"pass": "·", "violation": "**V**", "violation-no-input": "n"}
    lines.append("| " + j["id"] + " | " + " | ".join(sym[j["results"][p]["result"]] for p in PIDS) + " |")
open(os.path.join(V, "seeded", "MATRIX.md"), "w").write(
    "Quick tier of every check against every seeded change (V = VIOLATION with a concrete failing input, n = VIOLATION ... no-failing-input-found, · = exit 0).\n\n" + "\n".join(lines) + "\n")

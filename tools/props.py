"""Per-property configuration of the checks."""

ALLOWED_AXIOMS = set()   # none: every property theorem must be closed under the global context

TRUSTED_BASE = [
    "Coq 8.16.1 kernel and its vm_compute evaluator (no native_compute)",
    "tools/gen_tables.py (translator for opcode bytes, operand shapes, weights, TIP heights)",
    "harness (Rust): generators, canonicalisation, cfg(melstf_verif) read-only hooks",
    "driver ./check: parsing of coqc output, source audit, Print Assumptions allowlist (empty)",
    "dependency crates are modelled, not verified: melstructs, novasmt, tmelcrypt (BLAKE3, Ed25519), stdcode/bincode, melpow, catvec, num, imbl, rayon",
]

VM_RESULT, VM_STEPS, VM_WEIGHT, VM_CALLS, VM_FUEL, VM_ENC, VM_DEC = 1, 2, 4, 8, 16, 32, 64

PROPS = {
    "C12": {
        "coq_targets": ["VM/CodecProofs.vo"],
        "streams": [("codec", 7), ("vm", VM_ENC | VM_DEC)],
        "rule": "codec: every byte string of length <= 2 (quick) / <= 3 (thorough) by checksum per first byte, plus literal cases: every opcode x operand-length class with truncations/extensions, PushIC canonicality classes, PushB lengths, random and mutated programs; a case is non-trivial when it is a distinct byte string / program; vm stream contributes encode/decode of every generated program",
        "exhaustive_part": True,
        "assumptions": ["bytes are modelled as N < 256", "Covenant::to_bytes panics (unwrap) exactly where encode_all = None"],
    },
    "C10": {
        "coq_targets": ["VM/ExecProofs.vo", "VM/LoopCount.vo", "VM/ValueRange.vo"],
        "streams": [("vm", VM_RESULT | VM_STEPS | VM_FUEL)],
        "corr_is_violation": True,
        "rule": "vm: all programs of length <= 3 (quick) / <= 4 (thorough) over a 17-opcode alphabet, hand-written boundary families, type-aware random programs with loops/jumps/heaps, random decodable byte strings; distinct (program, heap) pairs",
        "assumptions": ["hash_single and Ed25519 verification are oracles answered from the implementation's own calls"],
    },
    "C11": {
        "coq_targets": ["VM/LoopProofs.vo", "VM/CostProofs.vo"],
        "streams": [("vm", VM_STEPS | VM_WEIGHT | VM_CALLS | VM_FUEL)],
        "rule": "vm stream: executed step count (Executor::step calls), weight and opcodes_car_weight call count compared exactly with the model; steps <= weight evaluated on every real run",
        "assumptions": ["time/memory: only the instruction count and the weigh-call count are proved; allocator and rope internals are measured, not proved"],
    },
}

REFLECT_CLASS = {("C04", 2): ["F15"], ("C04", 3): ["F22"], ("C15", 5): ["F19"], ("C01", 6): ["F19"]}
# reflection details that tie a Coq definition to the code (a failure is a broken tie, not a failing input)
REFLECT_TIE = {("C04", 6): "the wallet's signature covenants (Covenant::std_ed25519_pk_new / _legacy) no longer decode to the op lists std_ed25519_new / std_ed25519_legacy of STF/Proofs/StdCovenant.v"}

ST_NET, ST_COINS, ST_COUNTS, ST_POOLS, ST_STAKES, ST_HIST, ST_TXS, ST_FEES, ST_MULT, ST_CODE, ST_HDR, ST_CONFIRM = 1, 2, 4, 8, 16, 32, 64, 128, 256, 512, 1024, 2048
ST_ALL = 4095
STF_RULE = ("stf stream: directed regression scenarios (one per known defect) followed by random histories on 4 network kinds: "
            "genesis, batches of 1-6 transactions of all kinds built by a wallet that tracks its coins (with dependent, duplicated, "
            "shuffled and adversarially mutated members), seal with/without proposer action, next_unsealed, apply_block with 16 kinds of "
            "single-field mutation, restart (to_block/from_block), confirm with subsets of signers; every step is replayed on the model "
            "(full state compared) and the property's reflection is evaluated on the real before/after states; a scenario is non-trivial "
            "when it has more than two accepted and at least one rejected operation")

def stf_prop(targets, mask, assumptions, rule_extra=""):
    return {"coq_targets": targets, "case_libs": ["Cases/Reflect.vo"], "streams": [("stf", mask)],
            "rule": STF_RULE + rule_extra, "assumptions": assumptions}

PROPS.update({
    "C01": stf_prop(["STF/Proofs/Supply.vo", "STF/Proofs/Pool.vo", "STF/Proofs/BatchSupply.vo", "STF/Proofs/SealSupply.vo", "STF/Proofs/SealLift.vo", "STF/Proofs/SealPegged.vo", "STF/Proofs/SupplyHistory.vo", "STF/Proofs/Witness3.vo", "STF/Proofs/Witness7.vo"], ST_COINS | ST_POOLS | ST_FEES | ST_CODE,
                    ["proved for all inputs and whole histories (C01_every_history, C01_every_history_mel_sym): what exists of a denomination grows by at most the sum of the explicit issuances of the steps - batch issuance, built-in pool bootstrap, the peg nudge capped at 2^128/throttler, the scheduled SYM subsidy; the whole seal is proved for MEL and SYM too (C01_seal_mel_sym). Before: the whole-batch inequality (coins + fee pool + tips <= before + explicit issuance, pools untouched), the three settlement phases of a block over all pools, and the whole seal for every custom denomination; not proved: MEL/SYM/ERG across the peg, the TIP-909 subsidy and the built-in bootstrap in one inequality (their issuance is evaluated by the reflection on every real seal)",
                     "hash-oracle assumptions HashOK (STF/Proofs/HashFacts.v) for the batch theorem; request coins as declared, distinct ids, sums below 2^128 and no saturation of issued liquidity for the seal theorems",
                     "pool sides are attributed to denominations through the key bytes"]),
    "C03": stf_prop(["STF/Proofs/Perm.vo", "STF/Proofs/PermAccept.vo", "STF/Proofs/SeqApply.vo", "STF/Proofs/Witness.vo"], ST_COINS | ST_CODE | ST_FEES,
                    ["proved for all inputs: acceptance and the whole successor state are invariant under permutation, and equal the one-at-a-time application in any dependency order; thread schedules (rayon pools of 1 and 3 threads) are explored on the real code only",
                     "hash-oracle assumptions HashOK (STF/Proofs/HashFacts.v), the counts invariant of C20 when TIP-906 is active, fee pool and tips below 2^128, input indices are bytes"]),
    "C04": stf_prop(["STF/Proofs/Covenant.vo", "STF/Proofs/StdCovenant.vo"], ST_CODE | ST_COINS,
                    ["Hash / Ed25519 inside covenants are oracles answered from the implementation's own evaluation",
                     "known finding F15: inputs sharing a covenant hash with an earlier input of the same transaction are not re-evaluated"]),
    "C09": {"coq_targets": ["STF/Proofs/Total.vo", "STF/Proofs/NoPanicBatch.vo", "STF/Proofs/SealTotal.vo", "STF/Proofs/Witness6.vo"], "case_libs": ["Cases/Reflect.vo"], "streams": [("stf", ST_CODE), ("vm", VM_RESULT | VM_FUEL)],
            "rule": STF_RULE + "; vm stream: every generated program runs under catch_unwind with a step cap; C09: any panic or step-cap hit on the real code is a violation",
            "assumptions": ["proved: per-site unreachability and totality of a whole batch (C09_batch_never_panics) under stated state invariants and bounds (height <= 3*10^6, mint difficulty <= 40, per-transaction input sums < 2^128) and of a whole seal (C09_seal_never_panics) under C20's invariant, C16's live and undrainable built-in pools, the subsidy-shift bound on the height and the 2^128 bound on fee pool + tips + MEL/SYM reserve; totality of apply_block (their composition with the header check) over histories is checked on the real code (debug build, overflow checks on)", "allocation failure, stack depth and dependency internals are outside the model"]},
    "C02": stf_prop(["STF/Proofs/Coins.vo", "STF/Proofs/CoinHistory.vo"], ST_COINS | ST_CODE | ST_TXS,
                    ["distinct transactions have distinct hashes and dedup markers are not output coin ids (hash-oracle assumptions of the set equation)",
                     "rejection leaves the state unchanged: checked on the real code after every rejected batch (coin root, transaction set)"]),
    "C15": stf_prop(["STF/Proofs/Pool.vo", "STF/Proofs/SealCoins.vo", "STF/Proofs/SealSupply.vo", "STF/Proofs/PoolKeys.vo", "STF/Proofs/SealLift.vo", "STF/Proofs/Witness2.vo"], ST_COINS | ST_POOLS,
                    ["sums below 2^128 (the supply bound of C09) in the arithmetic theorems", "PoolKey::from_bytes result is an oracle field; its canonicality test is modelled"]),
    "C16": stf_prop(["STF/Proofs/Pool.vo", "STF/Proofs/SealSupply.vo", "STF/Proofs/SealLift.vo", "STF/Proofs/SealInv.vo", "STF/Proofs/Witness4.vo", "STF/Proofs/PoolHistory.vo"], ST_POOLS | ST_COINS,
                    ["proved: both clauses together are an invariant of sealing and of accepted batches - a pool that is live (reserves and liquidity >= 1) and backed with room to spare (coins + tokens parked in reserves + 1 <= recorded liquidity) stays so; the built-in pools exist after the bootstrap; both invariants are also evaluated on every sealed state of the stream",
                     "request coins as declared, distinct ids, sums below 2^128, no saturation of issued liquidity, distinct pools have distinct liquidity tokens; the batch invariant assumes the batch issues none of the token (faucets of test networks can mint any denomination)"]),
    "C20": stf_prop(["STF/Proofs/Counts.vo", "STF/Proofs/PermAccept.vo", "STF/Proofs/SealCounts.vo", "STF/Proofs/History.vo", "STF/Proofs/Witness5.vo"], ST_COUNTS | ST_COINS,
                    ["count keys and coin keys live in the same SMT: assumed distinct (hash oracle)", "proved for every reachable state: from the genesis state (or any state satisfying the invariant Good) through every history of accepted / rejected batches and block boundaries (seal with any proposer action, next_unsealed including the TIP-906 activation), under the per-step hash-oracle assumptions (HashOK; faucet markers are not hashes of transactions filed in the block; the proposer-reward coin id is new)"]),
    "C05": stf_prop(["STF/Proofs/Fees.vo"], ST_FEES | ST_COINS | ST_CODE,
                    ["serialized length of a transaction (stdcode) is an oracle field taken from the real crate", "saturating u128 sums: exact under the 2^127 supply bound"]),
    "C06": stf_prop(["STF/Proofs/Block.vo"], ST_ALL,
                    ["the five Merkle roots are a function rf of the state (any function in the theorems; the real roots in the check)"],
                    "; C06: honest blocks must be accepted, each of 16 single-field mutations rejected (harness), apply_block replayed on the model"),
    "C07": {"coq_targets": ["STF/Proofs/Block.vo", "STF/Proofs/ChainHistory.vo", "Merkle/Smt.vo", "Merkle/Dense.vo", "Cases/MerkleLib.vo"], "case_libs": ["Cases/Reflect.vo"],
            "streams": [("stf", ST_HIST | ST_HDR | ST_NET), ("merkle", 7)],
            "rule": STF_RULE + "; merkle stream: random small novasmt trees built by random insert/overwrite/delete histories with shared key prefixes; the model recomputes the root (sparse root function) and climbs every FullProof (present keys, an absent key, wrong values) with the real hash evaluations supplied as tables; dense cases: DenseMerkleTree of 0..9 (quick) / 0..33 (thorough) blocks, the model recomputes the root, checks verify_dense on every proof and a wrong leaf, and rebuilds every proof",
            "assumptions": ["hash functions are abstract in the theorems; soundness assumes a collision-free hash (hypothesis, not axiom)", "the stake tree's construction is checked on the real crate only"]},
    "C08": stf_prop(["STF/Proofs/Block.vo", "STF/Proofs/MiscHistory.vo"], ST_ALL,
                    ["the content-addressed store returns the trees the header roots name (from_block takes them from the same maps)"],
                    "; C08: after every restart both lineages run three further blocks and their headers are compared"),
    "C13": stf_prop(["STF/Proofs/Stakes.vo", "STF/Proofs/StakeHistory.vo"], ST_STAKES | ST_CODE, ["StakeDoc decoding (stdcode) is an oracle field", "history theorem (C13_locked_for_life): per-step hash-oracle assumptions (HashOK, the stake transaction's hash is not a faucet marker id, a pool request's hash or a reward id), input indices are bytes, heights outside the legacy range below 900000"]),
    "C14": stf_prop(["STF/Proofs/Confirm.vo"], ST_CONFIRM, ["Ed25519 verification and the header hash are oracles"]),
    "C17": stf_prop(["STF/Proofs/FeeMult.vo", "STF/Proofs/Frame.vo", "STF/Proofs/MiscHistory.vo"], ST_MULT, []),
    "C18": stf_prop(["STF/Proofs/Dosc.vo", "STF/Proofs/MiscHistory.vo"], ST_MULT | ST_CODE, ["melpow::Proof::verify is an oracle answered by the real crate per (proof, seed header, coin, difficulty)"]),
    "C19": stf_prop(["STF/Proofs/Faucet.vo", "STF/Proofs/FaucetHistory.vo", "STF/Proofs/Witness5.vo"], ST_COINS | ST_CODE, ["faucet markers are distinct from every other coin id (hash oracle); no covenant hashes to 0", "history theorem (C19_at_most_once_anywhere): the marker id is not the hash of any transaction of the history nor a proposer-reward id, and no transaction lists a covenant whose hash is the zero address"]),
})

NOT_YET = {}

def _stf_text(text, note, technique):
    return {"text": text, "note": note + " Model tied to the code by replaying every recorded step of the stf stream on the Gallina model (full-state comparison) and by evaluating the property's boolean reflection on the implementation's own before/after states.", "technique": technique}

MANIFEST_TEXT = {
    "C01": _stf_text("Coq theorems. Batch: under the hash-oracle assumptions, for every denomination the coins, fee pool and tips after an accepted batch are at most those before plus the explicit issuance (everything a faucet declares, a transaction's own new token, the ERG outputs of a mint), pools untouched - built from per-transaction balance, inputs consumed once, and the supply algebra of the coin map. Seal: each pool phase (swaps, deposits, withdrawals) conserves reserve + coins per side and moves liquidity tokens with the recorded liquidity; over all pools and the three phases the potential 'coins + reserves against recorded liquidity' never grows; over a whole seal this holds for every custom denomination and ERG; for MEL and SYM the whole seal adds at most the bootstrap, the peg nudge (capped at 2^128/throttler) and the scheduled SYM subsidy, the subsidy's MEL going to the fee pool and the proposer reward coming out of fee pool and tips (C01_seal_mel_sym); and over every history of batches and blocks what exists of any denomination grows by at most the sum of the steps' explicit issuances (C01_every_history). The reflection evaluates supply' <= supply + issuance on every real batch and seal.",
                     'Partial only for MEL/SYM/ERG at seal: the issuance of peg, TIP-909 subsidy and built-in bootstrap is evaluated per observation, not folded into one theorem.', 'Coq proof (map-fold algebra, induction over batches / pools / phases, nia) + supply reflection on every real step'),
    "C03": _stf_text('Coq theorems: if one presentation of a set of transactions is accepted then every permutation is accepted with the same state (all twelve components), and the outcome equals applying the transactions one at a time in any order in which no transaction spends an output of itself or a later one - under the hash-oracle assumptions and the counts invariant; by symmetry rejection is order-free too. Checked on the real code for every batch of the stream: all permutations (<= 4 members), rotations, rayon pools of 1 and 3 threads, one-at-a-time application.',
                     'Thread schedules are explored, not proved (no theorem about a sequential model can exhibit them).', 'Coq proof (Permutation over gmap folds, head/tail split of a batch, state extensionality) + exhaustive small-permutation and thread-pool exploration'),
    "C04": _stf_text("Coq theorems: in an accepted batch every input is approved by a covenant of the coin's hash run on that input's own environment, except inputs sharing their covenant hash with an earlier input of the same transaction (known finding F15, stated in the theorem); missing / undecodable / failing covenants reject; the two standard signature covenants accept iff the expected slot of tx.sigs holds a <= 64 byte signature that verifies under the named key over the signature-free hash (symbolic execution of the 8-instruction programs for every transaction and environment).",
                     "Hash and Ed25519 are oracles.", "Coq proof (induction over inputs, symbolic execution) + differential replay + independent re-evaluation of every covenant"),
    "C09": _stf_text("Coq theorems: covenant execution always terminates; checked totals cannot overflow; mint arithmetic cannot overflow; swaps / withdrawals are guarded; consistent counts never underflow; a whole batch of arbitrary transactions never panics (state or rejection) under stated invariants and bounds (counts consistent, history below the current height with positive speeds, height <= 3*10^6, mint difficulty <= 40, input sums < 2^128); and a whole seal never panics, for any proposer action (C09_seal_never_panics: every settlement phase, the peg, the subsidy and the reward are total), on states satisfying C20's invariant, with live built-in pools the block's withdrawals cannot drain (C16), height below TIP-909 + 128 million and fee pool + tips + MEL/SYM reserve below 2^128. Checked on the real code: every call of every stream runs under catch_unwind in a debug build; any panic is a violation, and the model's explicit Panic outcomes are compared with the real ones.",
                     'Partial: totality of seal / apply_block over whole histories, allocation, stack depth and dependency internals are not proved.', 'Coq proof (per-panic-site unreachability, whole-batch totality) + catch_unwind exploration with adversarial inputs'),
    "C02": _stf_text("Coq theorems: the coin map after an accepted batch is every insertion of the batch followed by the removal of every input; under the hash assumptions this is the set equation (inputs gone, each non-destroyed output present with exactly the declared value/covenant/data/height/denomination, markers present, every other coin untouched); acceptance implies well-formedness, no coin consumed twice, every input unspent before or created in the batch - for all states and batches; over whole histories an unspent coin is never lost (it is in the coin tree, unchanged, after every history that does not spend it - C02_unspent_coin_is_never_lost) and a spent one is gone.",
                     "Hash-oracle assumptions stated as hypotheses.", "Coq proof (gmap fold lemmas, list induction) + differential replay + reflection against an independent map-based spec"),
    "C15": _stf_text("Coq theorems: at seal every coin that is not output 0/1 of a pool request is unchanged; a pool request has kind swap/deposit/withdraw and canonical pool data; every pool named by a block's requests is settled exactly once per phase (the key list has no duplicates); swap_many pays floor(in*other'*995/(own'*1000)) on each side, keeps reserves positive, never decreases the product; pro-rata shares never exceed the total; at the level of the state the reserves of every pool move by what is taken from / paid into the request coins (never less), over all pools and the three phases of a block.",
                     'Arithmetic theorems assume sums below 2^128; request coins as declared (C02).', 'Coq proof (nia over N, induction over settlement loops and pools, sortedness of the key list) + differential replay + reflection'),
    "C16": _stf_text("Coq theorems: both clauses as one invariant - a pool whose reserves and recorded liquidity are >= 1 and whose token is backed with room to spare (tokens in coins + tokens parked in other pools' reserves + 1 <= recorded liquidity; the built-in pools start with 10^9 nobody owns) keeps both through a whole seal (bootstrap, swaps, deposits, withdrawals, peg, subsidy, proposer reward) and through every accepted batch that issues none of the token; swap_many never panics on a live pool and keeps it live under the code's saturating arithmetic; the bootstrap makes the built-in pools exist; lifted to whole histories (C16_every_reachable_state): a pool that exists, is live and backed stays so in every later state of every sequence of batches and block boundaries meeting the per-step side conditions; the reflection evaluates both invariants on every sealed state.",
                     "Hypotheses: request coins as declared, distinct coin ids, sums below 2^128, no saturation of issued liquidity, distinct liquidity tokens per pool; faucets of test networks can mint any denomination.", "Coq proof (potential function over pools and phases, liveness through every seal step) + invariant reflection on every sealed state"),
    "C20": _stf_text('Coq theorems: the CountsOk invariant (count entry = number of coins per covenant hash, no entry for none) is preserved by insert_coin (fresh key or same covenant hash), by remove_coin (which never underflows), established by the TIP-906 activation fold, preserved by a whole accepted batch under the hash-oracle assumptions alone, by a whole seal (Melswap rewrites keep the covenant hash of a request output; deposit outputs are removed without underflow; the reward coin is new) and by next_unsealed across the activation height; hence (C20_every_reachable_state, C20_every_sealed_state) the counts equal the number of unspent coins in every state of every history from the genesis state, and no count exists before the activation; the reflection regroups the real coin entries after every step.',
                     'Count keys assumed distinct from coin keys.', 'Coq proof (map_fold lemmas, induction) + differential replay + reflection'),
    "C05": _stf_text("Coq theorems over the executable model of apply_tx_batch / seal: weight and minimum-fee formulas, every member of an accepted batch pays at least its minimum fee, fee pool and tips move by exactly the minimum-fee parts and remainders, the proposer reward coin is fee_pool/65536 + tips and both drop by exactly that - for all states, batches and multipliers.",
                     "The serialized size is an oracle field.", "Coq proof (induction over the batch) + differential replay + reflection"),
    "C06": _stf_text("Coq theorems: apply_block succeeds iff the transactions apply to the successor state, the result seals and the recomputed header equals the declared one; the returned state has that header; honest blocks are accepted; a differing header is rejected - for all states, blocks and root functions.",
                     "Header equality is record equality over 11 fields; roots are an arbitrary function of the state.", "Coq proof (unfolding/case analysis) + differential replay + mutation harness"),
    "C07": _stf_text("Coq theorems. State level: the header records the state's scalars and the five roots, the successor state is one higher on the same network with the parent header stored at the parent's height, the child's header points at the parent's hash. Merkle level (novasmt sparse tree over an abstract hash, no size bound): the root is a function of the contents alone, every present or absent key has a proof that verifies, and for a collision-free hash a verifying proof determines the value and any differing entry changes the root. The dense tree of novasmt::dense (transactions under TIP-908) is reduced to the same tree: its root is the root of the perfect tree over the blocks, every block has a proof verify_dense accepts, an accepted proof determines the block. Tied to novasmt by recomputing roots and proofs of small real sparse and dense trees with tables of the real hash evaluations, and by checking membership/absence proofs and order-independence on every sealed state. Over whole histories (C07_every_reachable_history_is_a_chain): every reachable state's history holds one header per lower height, each with its own height and the chain's network and the hash of the header one below.",
                     "Soundness assumes a collision-free hash (hypothesis).", "Coq proof (depth induction over an abstract hash; state-level unfolding) + differential recomputation of real novasmt roots/proofs"),
    "C08": _stf_text("Coq theorem: from_block(to_block s) = s as states (Leibniz equality, hence identical behaviour under every continuation) whenever no tips are pending, and the refutation for pending tips (known finding F16); the harness runs three further blocks on both lineages after every restart. Over whole histories: every block sealed with a proposer action restarts exactly (C08_every_block_sealed_with_an_action_restarts_exactly; the keyed-transaction-set hypothesis is part of C20's invariant).",
                     "The store is modelled as returning the same maps.", "Coq proof (record equality) + lock-step continuation check"),
    "C13": _stf_text("Coq theorems: a stake is registered iff the five stated conditions hold; the stake set after a batch is exactly old plus registered; malformed stake transactions reject the batch; an accepted batch spends no output of a staked transaction (including same-batch stakes); at each block boundary exactly the stakes with end >= new epoch survive; sealing keeps the stakes; over whole histories (C13_registration_locks, C13_locked_for_life): from the batch that registers a stake, the staked coin is in the coin tree unchanged and the stake in the set in every state of every history whose block boundaries stay within the life of the stake.",
                     "Legacy heights (F20) appear as explicit guards in the statements.", "Coq proof (induction over batch / map filter) + differential replay + reflection"),
    "C14": _stf_text("Coq theorems: confirm = true iff all signatures verify and 3*present > 2*total (the overflow-free threshold of the code is proved equal to that); never below two thirds, empty proofs never confirm, full proofs confirm, adding a valid signature is monotone - for all stake sets and proofs.",
                     "Ed25519 is an oracle.", "Coq proof (integer arithmetic, list induction) + differential replay + reflection"),
    "C17": _stf_text("Coq theorems: seal leaves the multiplier unchanged without an action and applies move_fee_multiplier with one; that function equals trunc(max(m/128,floor)*d/128) saturated to the u128 range, moves by at most max(m/128,2), never wraps - for every m < 2^128 and d in [-128,127]; in a history nothing but a block sealed with a proposer action moves it (C17_only_the_proposer_step_moves_it).",
                     "", "Coq proof (lia with div/mod) + differential replay + reflection"),
    "C18": _stf_text("Coq theorems: an accepted mint has a decodable proof valid under one of the two hashes for the seed header at the coin's creation height and the coin id, difficulty in 1..64, the mainnet age rule, ERG outputs within dosc_to_erg(calculate_reward(...)); every mint of an accepted batch was validated; the DOSC speed never decreases in a batch, is kept by seal, and never decreases over any history (C18_speed_never_decreases).",
                     "melpow verification is an oracle.", "Coq proof (case analysis) + differential replay + reflection"),
    "C19": _stf_text("Coq theorems: on mainnet an accepted batch contains no faucet but the grandfathered hash; a faucet whose marker is in the coin tree makes the batch fail (same batch, later batches); acceptance inserts the marker and batches that do not spend it keep it; over whole histories (C19_at_most_once_anywhere): the marker is locked by the covenant hash 0, survives every later batch and block boundary, and every later batch containing a faucet with the same hash is refused.",
                     "Markers are assumed distinct from other coin ids (hash oracle).", "Coq proof (induction over the batch) + differential replay + reflection"),
    "C12": {
        "text": "Machine-checked proof (Coq) that the model's decoder and encoder are mutually inverse on all byte strings / all representable programs (no size bound), over opcode bytes and operand shapes regenerated from opcode.rs/consts.rs on every run; the model is tied to the real Covenant::from_bytes/to_bytes/weight by exhaustive comparison on all short byte strings and literal comparison on generated ones.",
        "note": "Trusted: Coq kernel + vm_compute, the table translator, the harness; bytes are N<256 in the model. A rewrite of opcode.rs the translator does not recognise is reported as a broken tie (no-failing-input-found) unless the differential run finds a failing input.",
        "technique": "Coq proof (list/byte induction) + translated tables + differential check vs real codec",
    },
    "C10": {
        "text": "The Gallina interpreter (VM/Exec.v) is the reference semantics written instruction by instruction; Coq theorems establish its stated laws (wrapping arithmetic, failing division, bit-bounded Exp, slice/ref range behaviour, forward-only jumps, loop bodies run exactly n times, result = top of stack) for all programs, and that it never leaves the domain the implementation can represent (every integer stays below 2^256 and every byte below 256 through every instruction and step; the decoder yields only literals in range); the real Executor is compared with it on exhaustive short programs and generated ones (results and the number of executed instructions must be equal).",
        "note": "Hash/Ed25519 are oracles answered from the implementation's own calls; catvec rope internals and usize overflow (finding F14) are outside the model.",
        "technique": "Coq reference interpreter + per-opcode theorems + differential execution vs real Executor",
    },
    "C11": {
        "text": "Machine-checked proof that for every program and heap the number of executed instructions never exceeds the (unsaturated) weight, hence every covenant terminates (potential-function argument over the loop stack, no bound on program size or nesting); executed step counts, weights and weigh-call counts of the real code are compared exactly with the model.",
        "note": "Proved for instruction counts over weights regenerated from opcode.rs; real time/memory is measured not proved; the exponential weigh cost (F12) and BtoI materialisation (F13) are recorded findings.",
        "technique": "Coq proof (potential function, induction over steps) + differential step/weight counts",
    },
}

"""Per-property configuration of the checks."""

ALLOWED_AXIOMS = set()   # none: every property theorem must be closed under the global context

TRUSTED_BASE = [
    "Coq 8.16.1 kernel and its vm_compute evaluator (no native_compute)",
    "tools/gen_tables.py (translator for opcode bytes, operand shapes, weights, TIP heights)",
    "harness (Rust): generators, canonicalisation, cfg(melstf_verif) read-only hooks",
    "driver ./check: parsing of coqc output, source audit, Print Assumptions allowlist (empty)",
    "dependency crates are modelled, not verified: melstructs, novasmt, tmelcrypt (BLAKE3, Ed25519), stdcode/bincode, melpow, catvec, num, imbl, rayon",
]

VM_RESULT, VM_STEPS, VM_WEIGHT, VM_CALLS, VM_FUEL, VM_ENC, VM_DEC = 1, 2, 4, 8, 16, 32, 64

PROPS = {
    "C12": {
        "coq_targets": ["VM/CodecProofs.vo"],
        "streams": [("codec", 7), ("vm", VM_ENC | VM_DEC)],
        "rule": "codec: every byte string of length <= 2 (quick) / <= 3 (thorough) by checksum per first byte, plus literal cases: every opcode x operand-length class with truncations/extensions, PushIC canonicality classes, PushB lengths, random and mutated programs; a case is non-trivial when it is a distinct byte string / program; vm stream contributes encode/decode of every generated program",
        "exhaustive_part": True,
        "assumptions": ["bytes are modelled as N < 256", "Covenant::to_bytes panics (unwrap) exactly where encode_all = None"],
    },
    "C10": {
        "coq_targets": ["VM/ExecProofs.vo"],
        "streams": [("vm", VM_RESULT | VM_FUEL)],
        "corr_is_violation": True,
        "rule": "vm: all programs of length <= 3 (quick) / <= 4 (thorough) over a 17-opcode alphabet, hand-written boundary families, type-aware random programs with loops/jumps/heaps, random decodable byte strings; distinct (program, heap) pairs",
        "assumptions": ["hash_single and Ed25519 verification are oracles answered from the implementation's own calls"],
    },
    "C11": {
        "coq_targets": ["VM/LoopProofs.vo", "VM/CostProofs.vo"],
        "streams": [("vm", VM_STEPS | VM_WEIGHT | VM_CALLS | VM_FUEL)],
        "rule": "vm stream: executed step count (Executor::step calls), weight and opcodes_car_weight call count compared exactly with the model; steps <= weight evaluated on every real run",
        "assumptions": ["time/memory: only the instruction count and the weigh-call count are proved; allocator and rope internals are measured, not proved"],
    },
}

NOT_YET = {}

MANIFEST_TEXT = {
    "C12": {
        "text": "Machine-checked proof (Coq) that the model's decoder and encoder are mutually inverse on all byte strings / all representable programs (no size bound), over opcode bytes and operand shapes regenerated from opcode.rs/consts.rs on every run; the model is tied to the real Covenant::from_bytes/to_bytes/weight by exhaustive comparison on all short byte strings and literal comparison on generated ones.",
        "note": "Trusted: Coq kernel + vm_compute, the table translator, the harness; bytes are N<256 in the model. A rewrite of opcode.rs the translator does not recognise is reported as a broken tie (no-failing-input-found) unless the differential run finds a failing input.",
        "technique": "Coq proof (list/byte induction) + translated tables + differential check vs real codec",
    },
    "C10": {
        "text": "The Gallina interpreter (VM/Exec.v) is the reference semantics written instruction by instruction; Coq theorems establish its stated laws (wrapping arithmetic, failing division, bit-bounded Exp, slice/ref range behaviour, forward-only jumps, loop bodies run exactly n times, result = top of stack) for all programs; the real Executor is compared with it on exhaustive short programs and generated ones (results must be equal).",
        "note": "Hash/Ed25519 are oracles answered from the implementation's own calls; catvec rope internals and usize overflow (finding F14) are outside the model.",
        "technique": "Coq reference interpreter + per-opcode theorems + differential execution vs real Executor",
    },
    "C11": {
        "text": "Machine-checked proof that for every program and heap the number of executed instructions never exceeds the (unsaturated) weight, hence every covenant terminates (potential-function argument over the loop stack, no bound on program size or nesting); executed step counts, weights and weigh-call counts of the real code are compared exactly with the model.",
        "note": "Proved for instruction counts over weights regenerated from opcode.rs; real time/memory is measured not proved; the exponential weigh cost (F12) and BtoI materialisation (F13) are recorded findings.",
        "technique": "Coq proof (potential function, induction over steps) + differential step/weight counts",
    },
}

mod codec;
mod coqfmt;
mod merkle;
mod out;
mod rng;
mod stf;
mod stfdump;
mod vm;

/// counting allocator: bytes requested so far (used to bound the memory a single VM step may take)
pub struct Counting;
pub static ALLOCATED: std::sync::atomic::AtomicU64 = std::sync::atomic::AtomicU64::new(0);
unsafe impl std::alloc::GlobalAlloc for Counting {
    unsafe fn alloc(&self, l: std::alloc::Layout) -> *mut u8 {
        ALLOCATED.fetch_add(l.size() as u64, std::sync::atomic::Ordering::Relaxed);
        std::alloc::System.alloc(l)
    }
    unsafe fn dealloc(&self, p: *mut u8, l: std::alloc::Layout) { std::alloc::System.dealloc(p, l) }
    unsafe fn realloc(&self, p: *mut u8, l: std::alloc::Layout, n: usize) -> *mut u8 {
        ALLOCATED.fetch_add(n.saturating_sub(l.size()) as u64, std::sync::atomic::Ordering::Relaxed);
        std::alloc::System.realloc(p, l, n)
    }
}
#[global_allocator]
static GLOBAL: Counting = Counting;
pub fn allocated() -> u64 { ALLOCATED.load(std::sync::atomic::Ordering::Relaxed) }

pub fn panic_msg(p: &Box<dyn std::any::Any + Send>) -> String {
    if let Some(s) = p.downcast_ref::<&str>() { s.to_string() }
    else if let Some(s) = p.downcast_ref::<String>() { s.clone() }
    else { "?".into() }
}

fn main() {
    let args: Vec<String> = std::env::args().collect();
    if args.len() < 5 {
        eprintln!("usage: mharness <stream> <tier> <seed> <outdir>");
        std::process::exit(2);
    }
    if std::env::var("MH_DEBUG").is_err() { std::panic::set_hook(Box::new(|_| {})); }
    let (stream, tier, seed, out) = (&args[1], &args[2], args[3].parse::<u64>().unwrap(), &args[4]);
    let mut em = out::Emitter::new(out);
    match stream.as_str() {
        "codec" => codec::run(tier, seed, &mut em),
        "vm" => vm::run(tier, seed, &mut em),
        "stf" => stf::run(tier, seed, &mut em),
        "merkle" => merkle::run(tier, seed, &mut em),
        _ => { eprintln!("unknown stream"); std::process::exit(2); }
    }
    em.finish();
}

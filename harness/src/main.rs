mod codec;
mod coqfmt;
mod out;
mod rng;
mod stf;
mod stfdump;
mod vm;

pub fn panic_msg(p: &Box<dyn std::any::Any + Send>) -> String {
    if let Some(s) = p.downcast_ref::<&str>() { s.to_string() }
    else if let Some(s) = p.downcast_ref::<String>() { s.clone() }
    else { "?".into() }
}

fn main() {
    let args: Vec<String> = std::env::args().collect();
    if args.len() < 5 {
        eprintln!("usage: mharness <stream> <tier> <seed> <outdir>");
        std::process::exit(2);
    }
    if std::env::var("MH_DEBUG").is_err() { std::panic::set_hook(Box::new(|_| {})); }
    let (stream, tier, seed, out) = (&args[1], &args[2], args[3].parse::<u64>().unwrap(), &args[4]);
    let mut em = out::Emitter::new(out);
    match stream.as_str() {
        "codec" => codec::run(tier, seed, &mut em),
        "vm" => vm::run(tier, seed, &mut em),
        "stf" => stf::run(tier, seed, &mut em),
        _ => { eprintln!("unknown stream"); std::process::exit(2); }
    }
    em.finish();
}

//! `codec` stream: Covenant::from_bytes / to_bytes / weight against the model's decode_all / encode_all / weight.
use crate::coqfmt as cf;
use crate::rng::Rng;
use crate::out::{Emitter, Stats};
use ethnum::U256;
use melvm::opcode::OpCode;
use melvm::Covenant;
use std::fmt::Write;

pub const P61: u128 = 2305843009213693951;

fn opcode_byte(o: &OpCode) -> u8 {
    let mut v = Vec::new();
    // PushB with > 255 bytes cannot be encoded; only used on decoded programs here
    o.encode(&mut v).unwrap();
    v[0]
}

fn u256_mod(n: &U256) -> u128 { (*n % U256::from(P61)).as_u128() }

fn arg_fp(o: &OpCode) -> u128 {
    use OpCode::*;
    match o {
        Exp(k) => (*k as u128 + 1) % P61,
        Hash(n) | SigEOk(n) | StoreImm(n) | LoadImm(n) | Bez(n) | Bnz(n) | Jmp(n) => (*n as u128 + 1) % P61,
        Loop(a, b) => (*a as u128 * 65536 + *b as u128 + 1) % P61,
        PushB(l) => {
            let mut acc: u128 = 1;
            for b in l { acc = (acc * 256 + *b as u128) % P61; }
            acc
        }
        PushI(n) | PushIC(n) => (u256_mod(n) + 1) % P61,
        _ => 0,
    }
}
pub fn ops_fp(ops: &[OpCode]) -> u128 {
    let mut acc: u128 = 7;
    for o in ops {
        let f = (opcode_byte(o) as u128 + 256 * arg_fp(o)) % P61;
        acc = (acc * 1000003 + f) % P61;
    }
    acc
}

fn visit(bs: &[u8], acc: &mut (u128, u128, u128)) {
    if let Ok(c) = Covenant::from_bytes(bs) {
        let ops = c.to_ops();
        acc.0 += 1;
        acc.1 = (acc.1 + c.weight() % P61) % P61;
        acc.2 = (acc.2 + ops_fp(&ops) * (1 + bs.len() as u128)) % P61;
    }
}
fn enumerate(n: usize, prefix: &mut Vec<u8>, acc: &mut (u128, u128, u128)) {
    visit(prefix, acc);
    if n > 0 {
        for b in 0..=255u8 {
            prefix.push(b);
            enumerate(n - 1, prefix, acc);
            prefix.pop();
        }
    }
}

pub fn case_line(bs: &[u8]) -> (String, bool) {
    let dec = Covenant::from_bytes(bs).ok();
    let w = melvm::covenant_weight_from_bytes(bs);
    let ops = dec.as_ref().map(|c| c.to_ops());
    (format!("{{| cc_bytes := {}; cc_ops := {}; cc_weight := {} |}}",
        cf::bytes(bs), cf::opt(&ops, |o| cf::ops(o)), w), dec.is_some())
}

pub fn random_op(r: &mut Rng) -> OpCode {
    use OpCode::*;
    let small = |r: &mut Rng| -> u16 { match r.below(4) { 0 => r.below(4) as u16, 1 => r.below(300) as u16, 2 => 65535 - r.below(3) as u16, _ => r.next() as u16 } };
    let big = |r: &mut Rng| -> U256 {
        match r.below(6) {
            0 => U256::from(r.below(3) as u128),
            1 => U256::from(r.next() as u128),
            2 => U256::MAX - U256::from(r.below(3) as u128),
            3 => U256::ONE << (r.below(256) as u32),
            4 => (U256::ONE << (8 * r.below(32) as u32)) - U256::from(r.below(2) as u128),
            _ => U256::from_be_bytes(r.bytes(32).try_into().unwrap()),
        }
    };
    match r.below(49) {
        0 => Noop, 1 => Add, 2 => Sub, 3 => Mul, 4 => Div, 5 => Rem, 6 => Exp(r.next() as u8),
        7 => And, 8 => Or, 9 => Xor, 10 => Not, 11 => Eql, 12 => Lt, 13 => Gt, 14 => Shl, 15 => Shr,
        16 => Hash(small(r)), 17 => SigEOk(small(r)), 18 => Store, 19 => Load,
        20 => StoreImm(small(r)), 21 => LoadImm(small(r)),
        22 => VRef, 23 => VAppend, 24 => VEmpty, 25 => VLength, 26 => VSlice, 27 => VSet, 28 => VPush, 29 => VCons,
        30 => BRef, 31 => BAppend, 32 => BEmpty, 33 => BLength, 34 => BSlice, 35 => BSet, 36 => BPush, 37 => BCons,
        38 => Bez(small(r)), 39 => Bnz(small(r)), 40 => Jmp(small(r)), 41 => Loop(small(r), small(r)),
        42 => ItoB, 43 => BtoI, 44 => TypeQ,
        45 => { let n = match r.below(4) { 0 => 0, 1 => 255, 2 => r.below(40) as usize, _ => r.below(256) as usize }; PushB(r.bytes(n)) }
        46 => PushI(big(r)), 47 => PushIC(big(r)), _ => Dup,
    }
}

pub fn run(tier: &str, seed: u64, em: &mut Emitter) {
    let mut r = Rng::new(seed ^ 0xC0DEC);
    let mut st = Stats::default();
    // ---- exhaustive enumeration, compared through per-first-byte checksums
    let depth = if tier == "thorough" { 2 } else { 1 };
    let sums: Vec<(u128, u128, u128)> = {
        use rayon::prelude::*;
        (0..256u32).into_par_iter().map(|b0| {
            let mut acc = (0, 0, 0);
            let mut p = vec![b0 as u8];
            enumerate(depth, &mut p, &mut acc);
            acc
        }).collect()
    };
    let per_file = 16;
    for (k, chunk) in (0..256u32).collect::<Vec<_>>().chunks(per_file).enumerate() {
        let mut s = String::new();
        writeln!(s, "From MelVerif Require Import Cases.Lib.\nOpen Scope N_scope.").unwrap();
        writeln!(s, "Definition firsts : list N := {}.", cf::list(chunk, |b| b.to_string())).unwrap();
        writeln!(s, "Definition expected : list (N * N * N) := {}.",
            cf::list(chunk, |b| { let t = sums[*b as usize]; format!("({}, {}, {})", t.0, t.1, t.2) })).unwrap();
        writeln!(s, "Definition chk (p : N * (N * N * N)) : N := let '(b, (c, w, f)) := p in let '(c', w', f') := enum_from b {} in bit ((c =? c') && (w =? w') && (f =? f')) 1.", depth).unwrap();
        writeln!(s, "Eval vm_compute in (failing chk 0 (combine firsts expected)).").unwrap();
        em.raw_file(&format!("enum_{:02}", k), &s, chunk.iter().map(|b| format!("{{\"first_byte\":{},\"max_len\":{}}}", b, depth + 1)).collect());
    }
    let nstr: u64 = (0..=depth as u32 + 1).map(|l| 256u64.pow(l)).sum::<u64>() - 1;
    st.add("enumerated_strings", nstr);
    st.add("enumerated_decodable", sums.iter().map(|t| t.0 as u64).sum());
    em.exhaustive = true;

    // ---- targeted + random byte strings
    let mut cases: Vec<Vec<u8>> = vec![vec![]];
    // every opcode x argument-length classes: encode a random instance, then truncate / extend / corrupt
    let n_inst = if tier == "thorough" { 40 } else { 8 };
    let mut seen_tags = std::collections::BTreeSet::new();
    let mut tries = 0;
    while (seen_tags.len() < 49 || tries < 49 * n_inst) && tries < 200000 {
        tries += 1;
        let o = random_op(&mut r);
        let mut enc = Vec::new();
        if o.encode(&mut enc).is_err() { continue; }
        seen_tags.insert(enc[0]);
        cases.push(enc.clone());
        for cut in 1..enc.len().min(6) { cases.push(enc[..enc.len() - cut].to_vec()); }
        let mut ext = enc.clone(); ext.push(r.next() as u8); cases.push(ext);
        let mut two = enc.clone(); let o2 = random_op(&mut r); let _ = o2.encode(&mut two); cases.push(two);
    }
    // PushIC canonicality classes
    for n in 0..=34u8 {
        for lead in [0u8, 1, 0x80, 0xff] {
            let mut v = vec![0xf2, n];
            if n > 0 { v.push(lead); v.extend(r.bytes(n as usize - 1).iter().map(|_| 0u8)); }
            cases.push(v.clone());
            let mut v2 = vec![0xf2, n];
            if n > 0 { v2.push(lead); v2.extend(r.bytes(n as usize - 1)); }
            cases.push(v2);
        }
    }
    for n in 1..=32u8 {
        let mut v = vec![0xf2, n, 0x00]; v.extend(r.bytes(n as usize - 1)); cases.push(v.clone());
        v.push(0x09); cases.push(v);
    }
    // PushB length classes
    for n in [0usize, 1, 2, 31, 32, 33, 254, 255] {
        let mut v = vec![0xf0, n as u8]; v.extend(r.bytes(n)); cases.push(v.clone());
        if n > 0 { v.pop(); cases.push(v); }
    }
    // very long programs: decoding does not stop (or stop checking) after any number of instructions
    {
        let noop = Covenant::from_ops(&[OpCode::Noop]).to_bytes().to_vec();
        for n in [65_535usize, 65_536, 65_537] {
            let mut v: Vec<u8> = Vec::with_capacity(n + 2);
            for _ in 0..n { v.extend_from_slice(&noop); }
            cases.push(v.clone());
            let mut bad = v.clone(); bad.push(0xff); bad.push(0x00); cases.push(bad);     // an invalid opcode at the very end
        }
    }
    // every single byte followed by junk, every invalid opcode
    for b in 0..=255u8 { cases.push(vec![b, r.next() as u8, r.next() as u8, r.next() as u8, r.next() as u8]); }
    // random programs encoded, then mutated
    let n_rand = if tier == "thorough" { 6000 } else { 600 };
    for _ in 0..n_rand {
        let n = r.range(1, 12) as usize;
        let ops: Vec<OpCode> = (0..n).map(|_| random_op(&mut r)).filter(|o| !matches!(o, OpCode::PushB(b) if b.len() > 255)).collect();
        // keep the weight recursion cheap: at most 8 loops
        let mut loops = 0;
        let ops: Vec<OpCode> = ops.into_iter().filter(|o| { if matches!(o, OpCode::Loop(..)) { loops += 1; loops <= 8 } else { true } }).collect();
        let bytes = Covenant::from_ops(&ops).to_bytes().to_vec();
        cases.push(bytes.clone());
        if !bytes.is_empty() {
            let mut m = bytes.clone();
            match r.below(4) {
                0 => { let i = r.below(m.len() as u64) as usize; m[i] ^= 1 << r.below(8); }
                1 => { let i = r.below(m.len() as u64) as usize; m.remove(i); }
                2 => { let i = r.below(m.len() as u64 + 1) as usize; m.insert(i, r.next() as u8); }
                _ => { let i = r.below(m.len() as u64) as usize; m.truncate(i); }
            }
            cases.push(m);
        }
    }
    for _ in 0..n_rand { let n = r.range(0, 40) as usize; cases.push(r.bytes(n)); }
    // drop byte strings whose decoded form has many loops (weight recursion is exponential, finding F12)
    cases.retain(|b| b.iter().filter(|x| **x == 0xb0).count() <= 10);
    cases.sort(); cases.dedup();
    let mut lines = Vec::new();
    let mut metas = Vec::new();
    for bs in &cases {
        let (l, ok) = case_line(bs);
        st.bump(if ok { "decodable" } else { "undecodable" });
        st.bump(&format!("len_{}", match bs.len() { 0 => "0", 1..=3 => "1-3", 4..=16 => "4-16", 17..=64 => "17-64", _ => "65+" }));
        lines.push(l);
        // reflection of C12 on the implementation alone: decode-then-encode is the identity, and
        // encode-then-decode gives the program back
        let mut viol = String::new();
        if let Ok(c) = Covenant::from_bytes(bs) {
            let re = std::panic::catch_unwind(|| c.to_bytes().to_vec());
            match re {
                Ok(b2) => {
                    if &b2 != bs { viol = format!("\"C12\":\"decodes, but re-encodes to {} (a second byte string for the same program)\"", hex::encode(&b2)); }
                    else if Covenant::from_bytes(&b2).map(|c2| c2.to_ops() != c.to_ops()).unwrap_or(true) { viol = "\"C12\":\"encode-then-decode does not return the program\"".into(); }
                    else if melvm::covenant_weight_from_bytes(bs) != c.weight() { viol = "\"C12\":\"weight from bytes differs from weight of the decoded program\"".into(); }
                }
                Err(_) => { viol = "\"C12\":\"decoded program cannot be re-encoded (panic)\"".into(); }
            }
        }
        metas.push(format!("{{\"bytes\":\"{}\",\"decodable\":{},\"violates\":{{{}}}}}", hex::encode(bs), ok, viol));
    }
    em.case_files("codec", "ccase", "check_codec", &lines, &metas, 400);
    em.stats("codec", st);
}

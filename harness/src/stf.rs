//! `stf` stream: histories driven through the real melstf API, recorded as scenarios for the model.
use crate::coqfmt as cf;
use crate::out::{Emitter, Stats};
use crate::rng::Rng;
use crate::stfdump::*;
use bytes::Bytes;
use ethnum::U256;
use melstf::{GenesisConfig, SealedState, StateError};
use melstructs::*;
use melvm::opcode::OpCode;
use melvm::{Covenant, CovenantEnv, Value, VerifExecutor};
use novasmt::{Database, InMemoryCas};
use std::collections::{BTreeMap, HashMap, HashSet};
use std::panic::{catch_unwind, AssertUnwindSafe};
use stdcode::StdcodeSerializeExt;
use tmelcrypt::{Ed25519PK, Ed25519SK, HashVal, Hashable};

pub fn err_code(e: &StateError) -> u32 {
    match e {
        StateError::MalformedTx => 1, StateError::NonexistentCoin(_) => 2, StateError::UnbalancedInOut => 3,
        StateError::InsufficientFees(_) => 4, StateError::NonexistentScript(_) => 5, StateError::ViolatesScript(_) => 6,
        StateError::InvalidMelPoW => 7, StateError::WrongHeader(..) => 8, StateError::CoinLocked => 9, StateError::DuplicateTx => 10,
    }
}

#[derive(Clone)]
pub enum CovKind { AlwaysTrue, SigNew(usize), SigLegacy(usize), IndexZero, Never, Undecodable, HeightLock(u64), ValueAtLeast(u128) }
#[derive(Clone)]
pub struct CovInfo { pub bytes: Vec<u8>, pub kind: CovKind }

pub struct Keys { pub pk: Vec<Ed25519PK>, pub sk: Vec<Ed25519SK> }

pub enum Mode { U(St), S(SealedState<InMemoryCas>) }

pub struct Tables {
    pub hashes: Vec<(Vec<u8>, Vec<u8>)>,
    pub sigs: Vec<((Vec<u8>, Vec<u8>, Vec<u8>), bool)>,
    pub reward: BTreeMap<u64, HashVal>,
    pub marker: BTreeMap<HashVal, HashVal>,
    pub hdr: Vec<Header>,
    pub melpow: Vec<((usize, HashVal, CoinID, u32), u32)>,
    pub ed: Vec<((Ed25519PK, HashVal, Vec<u8>), bool)>,
}

pub struct Scenario {
    pub db: Database<InMemoryCas>,
    pub mode: Mode,
    pub dict: Dict,
    pub tables: Tables,
    pub proofs: Proofs,
    pub defs: Vec<String>,              // Coq definitions of transactions / headers, named
    pub txnames: HashMap<HashVal, String>,
    pub name: String,
    pub init: String,
    pub steps: Vec<String>,
    pub log: Vec<String>,               // human-readable op log for the sidecar
    pub covs: HashMap<Address, CovInfo>,
    pub keys: Keys,
    pub violates: Vec<(usize, String, String)>,      // (step, property, what)
    pub class: Vec<(usize, String)>,                 // (step, known-finding class)
    pub counters: BTreeMap<String, u64>,
    pub unknown_keys: Vec<String>,
    pub fixed_change: Option<Address>,
    pub block_accepted: Vec<TxHash>,    // transactions accepted since the block was opened (the harness's own record)
    pub faucets_accepted: HashSet<TxHash>,   // C19: every faucet transaction ever accepted on this lineage
    pub votes_ops: u32,
}

fn std_cov(kind: &CovKind, keys: &Keys) -> Vec<u8> {
    use OpCode::*;
    match kind {
        CovKind::AlwaysTrue => Covenant::always_true().to_bytes().to_vec(),
        CovKind::SigNew(i) => Covenant::std_ed25519_pk_new(keys.pk[*i]).to_bytes().to_vec(),
        CovKind::SigLegacy(i) => Covenant::std_ed25519_pk_legacy(keys.pk[*i]).to_bytes().to_vec(),
        CovKind::IndexZero => Covenant::from_ops(&[LoadImm(9), PushI(U256::ZERO), Eql]).to_bytes().to_vec(),
        CovKind::Never => Covenant::from_ops(&[PushI(U256::ZERO)]).to_bytes().to_vec(),
        CovKind::Undecodable => vec![0x00, 0x01, 0x02],
        // spendable once the previous block's height (last header field 2) is >= h
        CovKind::HeightLock(h) => Covenant::from_ops(&[PushI(U256::from(*h)), PushI(U256::from(2u32)), LoadImm(10), VRef, Lt, PushI(U256::ZERO), Eql]).to_bytes().to_vec(),
        // the coin's own value (heap 5) must be >= v
        CovKind::ValueAtLeast(v) => Covenant::from_ops(&[PushI(U256::from(*v)), LoadImm(5), Lt, PushI(U256::ZERO), Eql]).to_bytes().to_vec(),
    }
}

impl Scenario {
    /// per step: accepted / refused (which error a parallel phase reports may differ) and the state after it; the
    /// text of the operation is left out (a block lists its transactions in HashSet order)
    fn signature(&self) -> Vec<String> {
        let mut v = vec![self.init.clone()];
        for st in &self.steps {
            let i = st.rfind("; st_code := ").unwrap_or(0);
            let tail = &st[i + "; st_code := ".len().min(st.len() - i)..];
            let n = tail.find(|c: char| !c.is_ascii_digit()).unwrap_or(tail.len());
            v.push(format!("{}{}", if &tail[..n] == "0" { "ok" } else { "refused" }, &tail[n..]));
        }
        v
    }
    pub fn compare_rerun(&mut self, again: &Scenario) {
        let (a, b) = (self.signature(), again.signature());
        if a == b { return; }
        let k = a.iter().zip(b.iter()).position(|(x, y)| x != y).unwrap_or(a.len().min(b.len()));
        let what = format!("executing the same history a second time in the same process differs from the first execution at step {} ({} vs {} steps; first: {}; second: {})",
            k, a.len() - 1, b.len() - 1, self.log.get(k.saturating_sub(1)).cloned().unwrap_or_default(), again.log.get(k.saturating_sub(1)).cloned().unwrap_or_default());
        self.viol("C03", what.clone());
        // whether a block is accepted must be a function of the block and the state it is applied to
        let at_block = |l: &Vec<String>| l.get(k.saturating_sub(1)).map(|x| x.starts_with("apply_block")).unwrap_or(false);
        if at_block(&self.log) || at_block(&again.log) { self.viol("C06", what.clone()); }
        // the outcome of a batch must be a function of the state and the batch: anything an earlier (rejected, discarded
        // or re-executed) call left behind outside the state shows up here
        let at_batch = |l: &Vec<String>| l.get(k.saturating_sub(1)).map(|x| x.starts_with("batch")).unwrap_or(false);
        if at_batch(&self.log) || at_batch(&again.log) { self.viol("C02", what.clone()); }
        self.viol("C04", what);
    }
    pub fn viol(&mut self, prop: &str, what: String) { let st = self.steps.len(); self.violates.push((st, prop.to_string(), what)); }
    pub fn tag(&mut self, class: &str) { let st = self.steps.len(); self.class.push((st, class.to_string())); }
    pub fn bump(&mut self, k: &str) { *self.counters.entry(k.to_string()).or_insert(0) += 1; }

    pub fn new(name: &str, r: &mut Rng, net: NetID, mult: u128, fee_pool: u128) -> Scenario {
        let db = Database::new(InMemoryCas::default());
        let mut keys = Keys { pk: vec![], sk: vec![] };
        // fixed test keys: every random choice of a scenario derives from the seed
        for h in ["05faef3074dfb74743ba250b69341a2a0af5b81cbfcce88fff6d2e15f866d06568caf8358d4a4bf5928803611154514e3285c9d4ee885365026b28d1cb08fded",
                  "616ef1cab2506e2ddf5b85901f439cd5c6dc75f7381f51c00e3a861b04966c80061dbee8658aa5aa63b3215bc541382dd06e8233221691c45a670ba29d2a720d",
                  "f297e6e5f67ddeb62fcd7226f26bf1aa1a10bfc7752e028e6c852a1f63ae6e41d70c2144dea78b62def2b7d5c2f4c72dff44d2890bc0126d01b8f8e66ebe19c3"] {
            let sk = Ed25519SK::from_bytes(&hex::decode(h).unwrap()).unwrap();
            keys.pk.push(sk.to_public()); keys.sk.push(sk);
        }
        let mut covs = HashMap::new();
        for k in [CovKind::AlwaysTrue, CovKind::SigNew(0), CovKind::SigNew(1), CovKind::SigLegacy(2), CovKind::IndexZero, CovKind::Never,
                  CovKind::Undecodable, CovKind::HeightLock(2), CovKind::ValueAtLeast(1000)] {
            let b = std_cov(&k, &keys);
            covs.insert(Address(tmelcrypt::hash_single(&b)), CovInfo { bytes: b, kind: k });
        }
        let first = match r.below(3) { 0 => CovKind::AlwaysTrue, 1 => CovKind::SigNew(0), _ => CovKind::SigLegacy(2) };
        let first_hash = Address(tmelcrypt::hash_single(&std_cov(&first, &keys)));
        let mut stakes = BTreeMap::new();
        let nstake = r.below(4);
        for i in 0..nstake {
            stakes.insert(TxHash(tmelcrypt::hash_single(&[b's', i as u8])), StakeDoc {
                pubkey: keys.pk[(i % 3) as usize], e_start: if r.chance(1, 5) { 1 } else { 0 }, e_post_end: *r.pick(&[0u64, 0, 1, 2, 3, 100]),
                syms_staked: CoinValue(*r.pick(&[1u128, 2, 3, 10, 1000])) });
        }
        let cfg = GenesisConfig {
            network: net,
            init_coindata: CoinData { covhash: first_hash, value: CoinValue(*r.pick(&[1u128 << 60, 1 << 40, 1u128 << 100, 5_000_000_000])), denom: if r.chance(3, 4) { Denom::Mel } else { Denom::Sym }, additional_data: Bytes::new() },
            stakes, init_fee_pool: CoinValue(fee_pool), init_fee_multiplier: mult,
        };
        let st = cfg.realize(&db);
        let mut sc = Scenario { db, mode: Mode::U(st), dict: Dict::default(),
            tables: Tables { hashes: vec![], sigs: vec![], reward: BTreeMap::new(), marker: BTreeMap::new(), hdr: vec![], melpow: vec![], ed: vec![] },
            proofs: Proofs { table: vec![] }, defs: vec![], txnames: HashMap::new(), name: name.to_string(), init: String::new(), steps: vec![], log: vec![],
            covs, keys, violates: vec![], class: vec![], counters: BTreeMap::new(), unknown_keys: vec![], fixed_change: None, block_accepted: vec![], faucets_accepted: HashSet::new(), votes_ops: 0 };
        sc.dict.coin(CoinID::zero_zero());
        let covh: Vec<Address> = sc.covs.keys().cloned().collect();
        for a in covh { sc.dict.cov(a); }
        sc.dict.cov(Address(HashVal::default()));
        for d in [Denom::Sym, Denom::Erg] { sc.dict.pool(PoolKey::new(Denom::Mel, d)); }
        sc.dict.pool(PoolKey::new(Denom::Erg, Denom::Sym));
        for h in 0..64u64 { sc.dict.height(h); }
        let d = sc.dump_now();
        sc.init = sc.dump_str(&d);
        sc
    }

    /// known-finding class of a panic, from its message (the panic site)
    pub fn classify_panic(&mut self, m: &str) {
        if m.contains("denominator == 0") || m.contains("division by zero") || m.contains("divide by zero") { self.tag("F5"); self.tag("F6"); }
        if m.contains("self.liqs >= liqs") { self.tag("F7"); }
    }

    pub fn ustate(&self) -> &St { match &self.mode { Mode::U(u) => u, Mode::S(s) => s.verif_inner() } }

    pub fn dump_now(&mut self) -> Dump {
        let d = dump(self.ustate(), &self.dict);
        for u in &d.unknown { self.unknown_keys.push(u.clone()); }
        for h in d.history.values() { self.note_header(h); }
        d
    }
    pub fn note_header(&mut self, h: &Header) { if !self.tables.hdr.contains(h) { self.tables.hdr.push(*h); } }

    fn txname(&mut self, t: &Transaction) -> String {
        let key = t.stdcode().hash();
        if let Some(n) = self.txnames.get(&key) { return n.clone(); }
        let n = format!("{}_t{}", self.name, self.txnames.len());
        let body = tx(t, &mut self.proofs);
        self.defs.push(format!("Definition {} : tx := {}.", n, body));
        self.txnames.insert(key, n.clone());
        self.dict.tx(t);
        if t.kind == TxKind::Faucet { let h = t.hash_nosigs(); self.tables.marker.insert(h.0, tmelcrypt::hash_keyed(b"fdp", h.0)); }
        n
    }
    fn txlist(&mut self, txs: &[Transaction]) -> String {
        let names: Vec<String> = txs.iter().map(|t| self.txname(t)).collect();
        format!("[{}]", names.join("; "))
    }
    pub fn dump_str(&mut self, d: &Dump) -> String {
        // transactions by name
        let names: Vec<String> = d.txs.iter().map(|t| self.txname(t)).collect();
        let mut s = dump_coq(&Dump { txs: vec![], ..clone_dump(d) }, &mut self.proofs);
        s = s.replace("d_txs := []", &format!("d_txs := [{}]", names.join("; ")));
        s
    }
    fn push_step(&mut self, op: String, code: u32, what: &str) {
        let d = self.dump_now();
        let ds = self.dump_str(&d);
        self.steps.push(format!("{{| st_op := {}; st_code := {}; st_post := {} |}}", op, code, ds));
        self.log.push(format!("{} -> {}", what, code));
        self.bump(&format!("op_{}", what.split(|c| c == ' ' || c == '[' || c == '(' || c == '=').next().unwrap_or("?")));
        self.bump(&format!("code_{}", code));
    }

    /// runs every covenant the batch could execute, recording the Hash / SigEOk oracle answers
    fn collect_vm_oracles(&mut self, txs: &[Transaction], last: &Header) {
        let u = self.ustate().clone();
        let height = u.verif_height();
        let mut produced: HashMap<CoinID, CoinDataHeight> = HashMap::new();
        for t in txs {
            let h = t.hash_nosigs();
            for (i, o) in t.outputs.iter().enumerate().take(256) {
                let mut cd = o.clone();
                if cd.denom == Denom::NewCustom { cd.denom = Denom::Custom(h); }
                produced.insert(CoinID::new(h, i as u8), CoinDataHeight { coin_data: cd, height });
            }
        }
        let coins = melstf::CoinMapping::new(u.verif_coins());
        // signature evaluations of every signature slot against every wallet key, computed directly
        // (independently of how the executor lays the transaction out on its heap)
        for t in txs {
            let m = t.hash_nosigs().0 .0.to_vec();
            for sg in t.sigs.iter().take(8) {
                if sg.len() > 64 { continue; }
                for pk in self.keys.pk.clone().iter() {
                    let key = (pk.0.to_vec(), m.clone(), sg.to_vec());
                    if !self.tables.sigs.iter().any(|(k, _)| *k == key) { let ok = pk.verify(&m, sg); self.tables.sigs.push((key, ok)); }
                }
            }
        }
        for t in txs {
            let scripts = t.covenants_as_map();
            for (idx, inp) in t.inputs.iter().enumerate() {
                let cdh = match produced.get(inp).cloned().or_else(|| coins.get_coin(*inp)) { Some(c) => c, None => continue };
                let script = match scripts.get(&cdh.coin_data.covhash) { Some(s) => s, None => continue };
                let ops = match Covenant::from_bytes(script) { Ok(c) => c.to_ops(), Err(_) => continue };
                let env = CovenantEnv { parent_coinid: *inp, parent_cdh: cdh, spender_index: idx as u8, last_header: *last };
                let mut ex = VerifExecutor::new_from_env(ops.clone(), t.clone(), Some(env));
                let mut steps = 0;
                let _ = catch_unwind(AssertUnwindSafe(|| {
                    while ex.pc() < ops.len() && steps < 100_000 {
                        steps += 1;
                        match &ops[ex.pc()] {
                            OpCode::Hash(_) => if let Some(Value::Bytes(b)) = ex.stack.last() { let b: Vec<u8> = b.clone().into(); self.tables.hashes.push((b.clone(), tmelcrypt::hash_single(&b).0.to_vec())); },
                            OpCode::SigEOk(_) => {
                                let n = ex.stack.len();
                                if n >= 3 {
                                    if let (Value::Bytes(m), Value::Bytes(pk), Value::Bytes(sg)) = (&ex.stack[n - 1], &ex.stack[n - 2], &ex.stack[n - 3]) {
                                        let (m, pk, sg): (Vec<u8>, Vec<u8>, Vec<u8>) = (m.clone().into(), pk.clone().into(), sg.clone().into());
                                        if pk.len() == 32 && sg.len() <= 64 {
                                            let ok = Ed25519PK::from_bytes(&pk).map(|k| k.verify(&m, &sg)).unwrap_or(false);
                                            let key = (pk, m, sg);
                                            if !self.tables.sigs.iter().any(|(k, _)| *k == key) { self.tables.sigs.push((key, ok)); }
                                        }
                                    }
                                }
                            }
                            _ => {}
                        }
                        if ex.step().is_none() { break; }
                    }
                }));
            }
        }
    }

    /// MelPoW oracle: what Proof::verify answers (or that it panics) for every DoscMint of the batch, in the
    /// context the implementation will use (seed = header at the spent coin's height, the coin id, the difficulty)
    fn collect_melpow(&mut self, u: &St, txs: &[Transaction]) {
        let height = u.verif_height();
        let coins = melstf::CoinMapping::new(u.verif_coins());
        let hist = melstf::SmtMapping::<InMemoryCas, BlockHeight, Header>::new(u.verif_history());
        let mut produced: HashMap<CoinID, CoinDataHeight> = HashMap::new();
        for t in txs { let h = t.hash_nosigs(); for (i, o) in t.outputs.iter().enumerate().take(256) { produced.insert(CoinID::new(h, i as u8), CoinDataHeight { coin_data: o.clone(), height }); } }
        for t in txs.iter().filter(|t| t.kind == TxKind::DoscMint) {
            let cid = match t.inputs.get(0) { Some(c) => *c, None => continue };
            let cdh = match produced.get(&cid).cloned().or_else(|| coins.get_coin(cid)) { Some(c) => c, None => continue };
            let seed = match hist.get(&cdh.height) { Some(h) => h, None => continue };
            self.note_header(&seed);
            let (difficulty, pb): (u32, Vec<u8>) = match stdcode::deserialize(&t.data) { Ok(x) => x, Err(_) => continue };
            let proof = match melpow::Proof::from_bytes(&pb) { Some(p) => p, None => continue };
            let pid = self.proofs.id(&pb);
            let puzzle = tmelcrypt::hash_keyed(seed.hash(), &stdcode::serialize(&cid).unwrap());
            let p2 = proof.clone();
            // as proof_is_tip910 does: a verification that panics counts as failed
            let legacy = catch_unwind(AssertUnwindSafe(|| p2.verify(&puzzle, difficulty as usize, melstf::LegacyMelPowHash))).unwrap_or(false);
            let v = if !(1..=64).contains(&difficulty) { 0 } else if legacy { 1 }
                else if catch_unwind(AssertUnwindSafe(|| p2.verify(&puzzle, difficulty as usize, melstf::Tip910MelPowHash))).unwrap_or(false) { 2 } else { 0 };
            let key = (pid, seed.hash(), cid, difficulty);
            if !self.tables.melpow.iter().any(|(k, _)| *k == key) { self.tables.melpow.push((key, v)); }
        }
    }

    fn last_header(&self) -> Option<Header> {
        let u = self.ustate();
        let h = u.verif_height().0;
        let hist = melstf::SmtMapping::<InMemoryCas, BlockHeight, Header>::new(u.verif_history());
        hist.get(&BlockHeight(h.saturating_sub(1))).or_else(|| {
            let c = u.clone();
            catch_unwind(AssertUnwindSafe(move || c.seal(None).header())).ok()
        })
    }

    pub fn op_batch(&mut self, txs: &[Transaction]) -> u32 {
        let u = match &self.mode { Mode::U(u) => u.clone(), _ => panic!("batch on sealed") };
        let lh = self.last_header();
        let names = self.txlist(txs);
        let at0 = melstf::SmtMapping::<InMemoryCas, BlockHeight, Header>::new(u.verif_history()).get(&BlockHeight(u.verif_height().0.saturating_sub(1))).is_none();
        let r0 = match (&lh, at0) { (Some(h), true) => roots_of(h), _ => roots_zero() };
        if let Some(h) = &lh { self.note_header(h); self.collect_vm_oracles(txs, h); }
        self.collect_melpow(&u, txs);
        let before = u.verif_coins().root_hash();
        let mut work = u.clone();
        let res = catch_unwind(AssertUnwindSafe(|| { let r = work.apply_tx_batch(txs); (r, work) }));
        let code = match res {
            Ok((Ok(()), w)) => {
                self.mode = Mode::U(w);
                for t in txs {
                    self.block_accepted.push(t.hash_nosigs());
                    // C19: a faucet transaction is accepted at most once on a lineage (the grandfathered testnet transaction aside)
                    if t.kind == TxKind::Faucet && !self.faucets_accepted.insert(t.hash_nosigs()) {
                        // known finding F18: the grandfathered transaction itself writes no replay marker
                        if hex::encode(t.hash_nosigs().0 .0) == "30a60b20830f000f755b70c57c998553a303cc11f8b1f574d5e9f7e26b645d8b" { self.tag("F18"); }
                        self.viol("C19", format!("faucet transaction {} accepted a second time", hex::encode(&t.hash_nosigs().0 .0[..6])));
                    }
                }
                0
            }
            Ok((Err(e), w)) => {
                if w.verif_coins().root_hash() != before || w.verif_transactions().len() != u.verif_transactions().len() {
                    self.viol("C02", "rejected batch changed the state".into());
                }
                err_code(&e)
            }
            Err(p) => { let m = crate::panic_msg(&p); self.classify_panic(&m); self.viol("C09", format!("apply_tx_batch panicked: {}", m)); 100 }
        };
        // input distribution, for the evidence
        for t in txs { self.bump(&format!("tx_{}_{}", kind(t.kind), if code == 0 { "accepted" } else { "in_rejected_batch" })); }
        self.bump(&format!("batch_size_{}", txs.len().min(7)));
        self.check_order_independence(&u, txs, code);
        self.push_step(format!("OpBatch {} {}", names, r0), code, &format!("batch[{}]", txs.iter().map(|t| kind(t.kind)).collect::<Vec<_>>().join(",")));
        code
    }

    fn fingerprint(w: &St) -> (HashVal, HashVal, u128, u128, u128, u128, HashVal, usize) {
        (HashVal(w.verif_coins().root_hash()), HashVal(w.verif_pools().root_hash()), w.verif_fee_pool().0, w.verif_tips().0, w.verif_dosc_speed(),
         w.verif_fee_multiplier(), HashVal(w.verif_stakes().pre_tip911().root_hash()), w.verif_transactions().len())
    }

    /// C03: every permutation (<= 4 txs; 6 rotations/reversals above), rayon pools of 1 and 3 threads, and
    /// one-at-a-time application in dependency order must agree with the batch as presented
    fn check_order_independence(&mut self, u: &St, txs: &[Transaction], code: u32) {
        if txs.len() < 2 || code == 100 { return; }
        let hashes: HashSet<TxHash> = txs.iter().map(|t| t.hash_nosigs()).collect();
        let dependent = txs.iter().any(|t| t.inputs.iter().any(|i| hashes.contains(&i.txhash)));
        let run = |order: &[Transaction]| -> Option<Result<(HashVal, HashVal, u128, u128, u128, u128, HashVal, usize), u32>> {
            let mut w = u.clone();
            catch_unwind(AssertUnwindSafe(|| match w.apply_tx_batch(order) { Ok(()) => Ok(Self::fingerprint(&w)), Err(e) => Err(err_code(&e)) })).ok()
        };
        let base = match run(txs) { Some(b) => b, None => return };
        let mut orders: Vec<Vec<Transaction>> = vec![];
        if txs.len() <= 4 {
            let n = txs.len();
            let mut idx: Vec<usize> = (0..n).collect();
            // Heap's algorithm, iterative
            let mut c = vec![0usize; n];
            orders.push(idx.iter().map(|i| txs[*i].clone()).collect());
            let mut i = 0;
            while i < n {
                if c[i] < i { if i % 2 == 0 { idx.swap(0, i); } else { idx.swap(c[i], i); } orders.push(idx.iter().map(|k| txs[*k].clone()).collect()); c[i] += 1; i = 0; } else { c[i] = 0; i += 1; }
            }
        } else {
            let mut v = txs.to_vec(); v.reverse(); orders.push(v);
            for k in 1..4 { let mut v = txs.to_vec(); v.rotate_left(k); orders.push(v); }
        }
        self.bump("c03_batches_permuted");
        for o in &orders {
            self.bump("c03_permutations");
            if let Some(r) = run(o) {
                let same = match (&base, &r) { (Ok(a), Ok(b)) => a == b, (Err(_), Err(_)) => true, _ => false };
                if !same { if dependent { self.tag("F2"); } self.viol("C03", format!("a permutation of the batch gives {:?} instead of {:?}", r.as_ref().map(|_| "accepted").map_err(|e| *e), base.as_ref().map(|_| "accepted").map_err(|e| *e))); break; }
            }
        }
        // ... and every order on a pool of one thread, where a parallel fold sees the whole slice as one segment
        if orders.len() <= 24 {
            let pool1 = rayon::ThreadPoolBuilder::new().num_threads(1).build().unwrap();
            for o in &orders {
                if let Some(r) = pool1.install(|| run(o)) {
                    let same = match (&base, &r) { (Ok(a), Ok(b)) => a == b, (Err(_), Err(_)) => true, _ => false };
                    if !same { self.viol("C03", "a permutation of the batch run on a one-thread pool gives another result than the batch as presented".into()); break; }
                }
            }
        }
        for threads in [1usize, 3] {
            let pool = rayon::ThreadPoolBuilder::new().num_threads(threads).build().unwrap();
            if let Some(r) = pool.install(|| run(txs)) {
                let same = match (&base, &r) { (Ok(a), Ok(b)) => a == b, (Err(_), Err(_)) => true, _ => false };
                if !same { self.viol("C03", format!("result depends on the rayon pool size ({} threads)", threads)); }
            }
        }
        // sequential application in an order where creators precede spenders
        if base.is_ok() {
            let mut remaining: Vec<Transaction> = txs.to_vec();
            let mut done: HashSet<TxHash> = HashSet::new();
            let mut w = u.clone();
            let mut ok = true;
            while !remaining.is_empty() && ok {
                let pos = remaining.iter().position(|t| t.inputs.iter().all(|i| !hashes.contains(&i.txhash) || done.contains(&i.txhash)));
                match pos {
                    None => { ok = false; }
                    Some(p) => { let t = remaining.remove(p); done.insert(t.hash_nosigs());
                        match catch_unwind(AssertUnwindSafe(|| { let r = w.apply_tx(&t); (r, w) })) { Ok((Ok(()), w2)) => { w = w2; } Ok((Err(_), w2)) => { w = w2; ok = false; } Err(_) => { return; } } }
                }
            }
            let dup = txs.len() != hashes.len();
            if !dup && (!ok || Ok(Self::fingerprint(&w)) != base) { if dependent { self.tag("F2"); } self.viol("C03", "one-at-a-time application in dependency order differs from the batch".into()); }
        }
    }

    pub fn op_seal(&mut self, a: Option<ProposerAction>) -> u32 {
        let u = match &self.mode { Mode::U(u) => u.clone(), _ => panic!("seal on sealed") };
        let h = u.verif_height().0;
        if a.is_some() {
            let id = CoinID::proposer_reward(BlockHeight(h));
            self.tables.reward.insert(h, id.txhash.0);
            self.dict.coin(id);
            self.dict.cov(a.unwrap().reward_dest);
        }
        {   // input distribution: what this seal has to settle
            let txs: Vec<Transaction> = u.verif_transactions().iter().cloned().collect();
            let n = |k: TxKind| txs.iter().filter(|t| t.kind == k).count();
            self.bump(if a.is_some() { "seal_with_action" } else { "seal_without_action" });
            if n(TxKind::Swap) > 0 { self.bump("seal_with_swaps"); }
            if n(TxKind::LiqDeposit) > 0 { self.bump("seal_with_deposits"); }
            if n(TxKind::LiqWithdraw) > 0 { self.bump("seal_with_withdrawals"); }
            if n(TxKind::Swap) + n(TxKind::LiqDeposit) + n(TxKind::LiqWithdraw) >= 3 { self.bump("seal_with_3plus_pool_requests"); }
        }
        // every transaction accepted into this block is in the set that sealing settles and the block will list
        {
            let set: HashSet<TxHash> = u.verif_transactions().iter().map(|t| t.hash_nosigs()).collect();
            let missing = self.block_accepted.iter().filter(|h| !set.contains(h)).count();
            if missing > 0 {
                let what = format!("{} transaction(s) accepted into this block are missing from the block's transaction set when it is sealed", missing);
                for p in ["C15", "C02", "C06"] { self.viol(p, what.clone()); }
            }
            if set.len() > self.block_accepted.iter().collect::<HashSet<_>>().len() && !self.block_accepted.is_empty() {
                self.viol("C02", "the block's transaction set holds a transaction that no accepted batch contained".into());
            }
        }
        // (the legacy-deposit finding F19 is recognised by the reflection from its exact witness, not by a blanket class on the step)
        let res = catch_unwind(AssertUnwindSafe(move || { let s = u.seal(a); let hd = s.header(); (s, hd) }));
        match res {
            Ok((s, hd)) => {
                self.check_commitments(&s, &hd);
                self.mode = Mode::S(s);
                self.note_header(&hd);
                self.push_step(format!("OpSeal {} {} (Some {})", action(&a), roots_of(&hd), header(&hd)), 0, &format!("seal({})", a.map(|x| x.fee_multiplier_delta.to_string()).unwrap_or("-".into())));
                { let he = hd.height.0 % STAKE_EPOCH; if self.votes_ops == 0 || (self.votes_ops < 3 && (he <= 1 || he + 2 >= STAKE_EPOCH)) { self.op_votes(); } }
                0
            }
            Err(p) => {
                { let m = crate::panic_msg(&p); self.classify_panic(&m); self.viol("C09", format!("seal panicked: {}", m)); }
                self.push_step(format!("OpSeal {} {} None", action(&a), roots_zero()), 100, "seal(panic)");
                100
            }
        }
    }

    /// C07: linkage of the header and Merkle (non-)membership proofs of every entry against the header roots
    fn check_commitments(&mut self, s: &SealedState<InMemoryCas>, hd: &Header) {
        let inner = s.verif_inner();
        let h = inner.verif_height().0;
        let mut bad: Vec<String> = vec![];
        if hd.height.0 != h || hd.network != inner.verif_network() { bad.push("header height/network".into()); }
        if h > 0 {
            match s.history(BlockHeight(h - 1)) {
                Some(p) => { if hd.previous != p.hash() || p.height.0 + 1 != h || p.network != hd.network { bad.push("previous-hash / parent height / network linkage".into()); } }
                None => bad.push("parent header missing from history".into()),
            }
        }
        for (name, tree, root) in [("coins", s.raw_coins_smt(), hd.coins_hash), ("pools", s.raw_pools_smt(), hd.pools_hash), ("history", s.raw_history_smt(), hd.history_hash)] {
            if HashVal(tree.root_hash()) != root { bad.push(format!("{} root differs from the header", name)); }
            let entries: Vec<([u8; 32], Vec<u8>)> = tree.iter().map(|(k, v)| (k, v.to_vec())).collect();
            for (k, v) in entries.iter().take(40) {
                let (val, proof) = tree.get_with_proof(*k);
                if val.as_ref() != &v[..] || !proof.verify(root.0, *k, v) { bad.push(format!("{}: membership proof fails", name)); break; }
                let mut wrong = v.clone(); wrong.push(1);
                if proof.verify(root.0, *k, &wrong) { bad.push(format!("{}: proof verifies a wrong value", name)); break; }
            }
            let absent = tmelcrypt::hash_single(&[name.as_bytes(), &h.to_be_bytes()[..]].concat()).0;
            let (val, proof) = tree.get_with_proof(absent);
            if !val.is_empty() || !proof.verify(root.0, absent, b"") { bad.push(format!("{}: absence proof fails", name)); }
            // history independence: the same contents inserted in another order (with a detour) give the same root
            let db2 = Database::new(InMemoryCas::default());
            let mut t2 = db2.get_tree([0u8; 32]).unwrap();
            for (k, v) in entries.iter().rev() { t2.insert(*k, b"detour"); t2.insert(*k, v); }
            t2.insert(absent, b"x"); t2.insert(absent, b"");
            if t2.root_hash() != tree.root_hash() { bad.push(format!("{}: root depends on the insertion order", name)); }
        }
        // transactions commitment
        let txs: Vec<Transaction> = s.transactions().cloned().collect();
        let tip908 = inner.verif_network() == NetID::Custom08;
        if tip908 {
            let mut leaves: Vec<Vec<u8>> = txs.iter().map(|t| { let mut v = t.hash_nosigs().0 .0.to_vec(); v.extend_from_slice(&t.stdcode().hash().0); v }).collect();
            leaves.sort_unstable();
            let dense = novasmt::dense::DenseMerkleTree::new(&leaves);
            if HashVal(dense.root_hash()) != hd.transactions_hash { bad.push("TIP-908 transactions root".into()); }
            for (i, t) in txs.iter().enumerate() {
                if s.transaction_sorted_posn(t.hash_nosigs()) != Some(i) { bad.push("transaction_sorted_posn".into()); break; }
                if !novasmt::dense::verify_dense(&dense.proof(i), hd.transactions_hash.0, i, novasmt::hash_data(&leaves[i])) { bad.push("dense proof of a transaction fails".into()); break; }
            }
        } else {
            let db2 = Database::new(InMemoryCas::default());
            let mut smt = melstf::SmtMapping::<InMemoryCas, TxHash, Transaction>::new(db2.get_tree([0u8; 32]).unwrap());
            for t in txs.iter().rev() { smt.insert(t.hash_nosigs(), t.clone()); }
            if smt.root_hash() != hd.transactions_hash { bad.push("transactions root".into()); }
            for t in txs.iter().take(10) { let (v, p) = smt.get_with_proof(&t.hash_nosigs()); if v.as_ref() != Some(t) || !p.verify(hd.transactions_hash.0, tmelcrypt::hash_single(&stdcode::serialize(&t.hash_nosigs()).unwrap()).0, &t.stdcode()) { bad.push("transaction membership proof".into()); break; } }
        }
        // stakes commitment: recomputed from the contents alone (not through the state's own StakeSet object)
        {
            let db3 = Database::new(InMemoryCas::default());
            let mut t3 = db3.get_tree([0u8; 32]).unwrap();
            let mut ents: Vec<(TxHash, StakeDoc)> = s.raw_stakes().iter().map(|(k, v)| (*k, v.clone())).collect();
            ents.sort_by_key(|(k, _)| k.0 .0);
            for (k, v) in &ents { t3.insert(k.stdcode().hash().0, &v.stdcode()); }
            if HashVal(t3.root_hash()) != hd.stakes_hash { bad.push("stakes root is not the root of the stake contents".into()); }
            if HashVal(s.raw_stakes().pre_tip911().root_hash()) != hd.stakes_hash { bad.push("stakes root".into()); }
            if HashVal(tip911_stakeset::StakeSet::new(ents.iter().cloned()).pre_tip911().root_hash()) != hd.stakes_hash { bad.push("stakes root differs from that of an equal, freshly built stake set".into()); }
            self.bump(&format!("c07_stake_sets_of_{}", ents.len().min(4)));
        }
        self.bump("c07_states_checked");
        for b in bad { self.viol("C07", b); }
    }

    /// the sealed state s0 re-labelled as the state of block height h (with a fictitious parent header in its history)
    fn relabel(&mut self, s0: &SealedState<InMemoryCas>, h: u64) -> SealedState<InMemoryCas> {
        let mut blk = s0.to_block();
        blk.header.height = BlockHeight(h);
        if h > 0 {
            self.dict.height(h - 1);
            let mut parent = s0.header();
            parent.height = BlockHeight(h - 1);
            let mut hist = melstf::SmtMapping::<InMemoryCas, BlockHeight, Header>::new(self.db.get_tree(Default::default()).unwrap());
            hist.insert(BlockHeight(h - 1), parent);
            blk.header.history_hash = hist.root_hash();
        }
        SealedState::from_block(&blk, &s0.raw_stakes(), &self.db)
    }

    /// start the history at block height h: the sealed genesis is re-labelled through to_block / from_block
    /// (only before the first recorded step); the scenario's initial state is that sealed state
    pub fn jump_to_height(&mut self, h: u64) {
        assert!(self.steps.is_empty());
        let u = match &self.mode { Mode::U(u) => u.clone(), _ => panic!("jump on sealed") };
        let mut s0 = u.seal(None);
        // a mainnet state above the TIP-906 height has per-covenant counts: pass through the activation block first
        if s0.verif_inner().verif_network() == NetID::Mainnet && h >= 830000 {
            let r0 = self.relabel(&s0, 829_999);
            s0 = r0.next_unsealed().seal(None);
        }
        if s0.verif_inner().verif_network() == NetID::Testnet && h >= 500 {
            let r0 = self.relabel(&s0, 499);
            s0 = r0.next_unsealed().seal(None);
        }
        for k in 0..10 { self.dict.height(h + k); }
        let restored = self.relabel(&s0, h);
        self.mode = Mode::S(restored);
        let d = self.dump_now(); self.init = self.dump_str(&d);
    }

    pub fn op_next(&mut self) {
        let s = match &self.mode { Mode::S(s) => s.clone(), _ => panic!("next on unsealed") };
        let hd = s.header();
        self.dict.height(s.verif_inner().verif_height().0 + 1);
        let u = s.next_unsealed();
        self.mode = Mode::U(u);
        self.block_accepted.clear();
        self.push_step(format!("OpNext {}", header(&hd)), 0, "next");
    }

    pub fn op_restart(&mut self) {
        let s = match &self.mode { Mode::S(s) => s.clone(), _ => panic!("restart on unsealed") };
        let blk = s.to_block();
        let txs: Vec<Transaction> = blk.transactions.iter().cloned().collect();
        let names = self.txlist(&txs);
        let restored = SealedState::from_block(&blk, &s.raw_stakes(), &self.db);
        // C08: both lineages must behave identically from here on
        let tips = s.verif_inner().verif_tips().0;
        let dest = Address(tmelcrypt::hash_single(b"c08"));
        let cont = |st: &SealedState<InMemoryCas>| catch_unwind(AssertUnwindSafe(|| {
            let h0 = st.header();
            let u = st.next_unsealed();
            let h1 = u.clone().seal(Some(ProposerAction { fee_multiplier_delta: 3, reward_dest: dest })).header();
            let h2 = u.seal(None).next_unsealed().seal(Some(ProposerAction { fee_multiplier_delta: -3, reward_dest: dest })).header();
            (h0, h1, h2)
        })).ok();
        let (a, b) = (cont(&s), cont(&restored));
        self.bump("c08_restarts_compared");
        // C07: the state rebuilt from a block has that block's header (the header commits to everything it was rebuilt from)
        if let Ok(hr) = catch_unwind(AssertUnwindSafe(|| restored.header())) {
            if hr != blk.header { self.viol("C07", "the state rebuilt from a block (from_block) does not have that block's header".into()); }
        }
        // known finding F16 covers only a state sealed WITHOUT a proposer action that still holds tips
        if a != b { if tips > 0 && blk.proposer_action.is_none() { self.tag("F16"); } self.viol("C08", format!("restored state diverges from the original (tips at restart = {}, sealed {} a proposer action)", tips, if blk.proposer_action.is_some() { "with" } else { "without" })); }
        self.fork_probe(&s);
        self.mode = Mode::S(restored);
        self.push_step(format!("OpRestart {} {}", header(&blk.header), names), 0, "restart");
    }

    /// C07: two forks of one parent, two blocks deep, read in an interleaved order - every tip's header must chain to
    /// its own parent, and a fork rebuilt from its own block must have the same header (no state shared between snapshots)
    fn fork_probe(&mut self, s: &SealedState<InMemoryCas>) {
        let dest = Address(tmelcrypt::hash_single(b"fork"));
        let db = self.db.clone();
        let r = catch_unwind(AssertUnwindSafe(|| {
            let a1 = s.next_unsealed().seal(Some(ProposerAction { fee_multiplier_delta: 100, reward_dest: dest }));
            let b1 = s.next_unsealed().seal(None);
            let (pa, pb) = (a1.header(), b1.header());
            let a2 = a1.next_unsealed().seal(None);
            let b2 = b1.next_unsealed().seal(None);
            let (ha, hb) = (a2.header(), b2.header());
            let h1 = pa.height;
            let (ga, gb) = (a2.history(h1), b2.history(h1));
            let (ka, kb) = (a2.pool(PoolKey::new(Denom::Mel, Denom::Sym)), b2.pool(PoolKey::new(Denom::Mel, Denom::Sym)));
            let ra = SealedState::from_block(&a2.to_block(), &a2.raw_stakes(), &db);
            let rb = SealedState::from_block(&b2.to_block(), &b2.raw_stakes(), &db);
            let mut bad: Vec<String> = vec![];
            if pa == pb { return bad; }
            if ha.previous != pa.hash() || hb.previous != pb.hash() { bad.push("a fork tip's previous-hash is not the hash of its own parent header".into()); }
            if ga != Some(pa) || gb != Some(pb) { bad.push("history(h) of a fork tip is not its own parent header".into()); }
            if ra.header() != ha || rb.header() != hb { bad.push("a fork tip rebuilt from its own block has a different header".into()); }
            let ps = |p: Option<PoolState>| p.map(|q| (q.lefts, q.rights, q.liqs, q.price_accum));
            if ps(ra.pool(PoolKey::new(Denom::Mel, Denom::Sym))) != ps(ka) || ps(rb.pool(PoolKey::new(Denom::Mel, Denom::Sym))) != ps(kb) { bad.push("pool() of a fork tip differs from the pool in its own tree".into()); }
            bad
        }));
        self.bump("c07_fork_probes");
        match r {
            Ok(bad) => for b in bad { self.viol("C07", b); },
            Err(p) => { let m = crate::panic_msg(&p); self.viol("C09", format!("fork probe panicked: {}", m)); }
        }
    }

    pub fn op_confirm(&mut self, signers: &[(usize, bool)]) {
        let s = match &self.mode { Mode::S(s) => s.clone(), _ => panic!("confirm on unsealed") };
        if self.votes_ops < 3 { self.op_votes(); }
        let hh = s.header().hash();
        self.note_header(&s.header());
        let mut proof: ConsensusProof = BTreeMap::new();
        for (k, good) in signers {
            let mut sig = self.keys.sk[*k].sign(&hh.0);
            if !*good { sig[5] ^= 0x40; }
            proof.insert(self.keys.pk[*k], sig.into());
        }
        for (k, sg) in proof.iter() { self.tables.ed.push(((*k, hh, sg.to_vec()), k.verify(&hh.0, sg))); }
        let res = catch_unwind(AssertUnwindSafe(|| s.confirm(proof.clone()).is_some()));
        let plist: Vec<(Ed25519PK, Vec<u8>)> = proof.iter().map(|(k, v)| (*k, v.to_vec())).collect();
        let pstr = cf::list(&plist, |(k, v)| format!("({}, {})", U256::from_be_bytes(k.0), cf::bytes(v)));
        match res {
            Ok(b) => self.push_step(format!("OpConfirm {} {} {}", hn(&hh), pstr, b), 0, &format!("confirm={}", b)),
            Err(p) => { self.viol("C09", format!("confirm panicked: {}", crate::panic_msg(&p))); self.push_step("OpJump".into(), 100, "confirm(panic)") }
        }
    }

    /// C13: voting power as the real StakeSet reports it, for the epochs around every boundary of every stake and for
    /// every key in sight; compared with a recomputation from the documents here and with the model's votes / total_votes
    pub fn op_votes(&mut self) {
        let s = match &self.mode { Mode::S(s) => s.clone(), _ => return };
        let st = s.raw_stakes();
        let docs: Vec<StakeDoc> = st.iter().map(|(_, d)| d.clone()).collect();
        if docs.is_empty() { return; }
        let cur = s.header().height.0 / STAKE_EPOCH;
        let mut epochs: std::collections::BTreeSet<u64> = [cur, cur + 1].into_iter().collect();
        for d in &docs { for e in [d.e_start.saturating_sub(1), d.e_start, d.e_post_end.saturating_sub(1), d.e_post_end, d.e_post_end.saturating_add(1)] { epochs.insert(e); } }
        let mut keys: Vec<Ed25519PK> = docs.iter().map(|d| d.pubkey).chain(self.keys.pk.iter().cloned()).collect();
        keys.sort(); keys.dedup(); keys.truncate(8);
        // the current epoch first, then the boundaries nearest to it
        let mut es: Vec<u64> = epochs.into_iter().collect();
        es.sort_by_key(|e| (if *e >= cur { e - cur } else { cur - e }, *e));
        es.truncate(7);
        for e in es {
            let res = catch_unwind(AssertUnwindSafe(|| (keys.iter().map(|k| (*k, st.votes(e, *k))).collect::<Vec<_>>(), st.total_votes(e))));
            let (kv, tot) = match res { Ok(x) => x, Err(p) => { self.viol("C09", format!("votes panicked: {}", crate::panic_msg(&p))); continue } };
            for (k, v) in &kv {
                let spec: u128 = docs.iter().filter(|d| d.pubkey == *k && d.e_start <= e && e < d.e_post_end).map(|d| d.syms_staked.0).sum();
                if spec != *v { self.viol("C13", format!("epoch {}: a key's voting power is {} but its registered stakes with start <= epoch < end add up to {}", e, v, spec)); }
            }
            let all: u128 = docs.iter().filter(|d| d.e_start <= e && e < d.e_post_end).map(|d| d.syms_staked.0).sum();
            if all != tot { self.viol("C13", format!("epoch {}: total voting power is {} but the active stakes add up to {}", e, tot, all)); }
            let mine: u128 = { let ks: HashSet<Ed25519PK> = docs.iter().map(|d| d.pubkey).collect(); ks.iter().map(|k| st.votes(e, *k)).sum() };
            if mine != tot { for p in ["C13", "C14"] { self.viol(p, format!("epoch {}: the votes of the keys add up to {} but the total voting power is {}", e, mine, tot)); } }
            let kvs = cf::list(&kv, |(k, v)| format!("({}, {})", U256::from_be_bytes(k.0), v));
            self.push_step(format!("OpVotes {} {} {}", e, kvs, tot), 0, "votes");
        }
        self.votes_ops += 1;
    }

    /// builds a block on a copy of the current sealed state, optionally mutates it, applies it with apply_block
    pub fn op_apply_block(&mut self, txs: &[Transaction], a: Option<ProposerAction>, mutate: u32, r: &mut Rng) -> u32 {
        let parent = match &self.mode { Mode::S(s) => s.clone(), _ => panic!("apply_block on unsealed") };
        let ph = parent.header();
        let h = parent.verif_inner().verif_height().0 + 1;
        self.dict.height(h);
        for t in txs { self.txname(t); }
        if a.is_some() { let id = CoinID::proposer_reward(BlockHeight(h)); self.tables.reward.insert(h, id.txhash.0); self.dict.coin(id); self.dict.cov(a.unwrap().reward_dest); }
        // honest lineage
        let built = catch_unwind(AssertUnwindSafe(|| {
            let mut u = parent.next_unsealed();
            match u.apply_tx_batch(txs) { Ok(()) => Some(u.seal(a).to_block()), Err(_) => None }
        }));
        let mut blk = match built { Ok(Some(b)) => b, _ => return 999 };
        // single-field mutations
        let mut what = "honest".to_string();
        match mutate {
            0 => {}
            1 => { blk.header.fee_pool.0 ^= 1; what = "fee_pool".into() }
            2 => { blk.header.fee_multiplier = blk.header.fee_multiplier.wrapping_add(1); what = "fee_multiplier".into() }
            3 => { blk.header.dosc_speed += 1; what = "dosc_speed".into() }
            4 => { blk.header.coins_hash.0[0] ^= 1; what = "coins_hash".into() }
            5 => { blk.header.pools_hash.0[0] ^= 1; what = "pools_hash".into() }
            6 => { blk.header.stakes_hash.0[0] ^= 1; what = "stakes_hash".into() }
            7 => { blk.header.transactions_hash.0[0] ^= 1; what = "transactions_hash".into() }
            8 => { blk.header.history_hash.0[0] ^= 1; what = "history_hash".into() }
            9 => { blk.header.previous.0[0] ^= 1; what = "previous".into() }
            10 => { blk.header.height.0 += 1; what = "height".into() }
            11 => { blk.header.network = if blk.header.network == NetID::Custom02 { NetID::Custom03 } else { NetID::Custom02 }; what = "network".into() }
            12 => { if let Some(t) = blk.transactions.iter().next().cloned() { blk.transactions.remove(&t); what = "drop tx".into() } else { what = "drop tx (none)".into() } }
            13 => { blk.proposer_action = match blk.proposer_action { None => Some(ProposerAction { fee_multiplier_delta: 0, reward_dest: Address(HashVal::default()) }), Some(_) => None }; what = "toggle action".into() }
            14 => { if let Some(pa) = blk.proposer_action.as_mut() { pa.fee_multiplier_delta = pa.fee_multiplier_delta.wrapping_add(64); what = "delta".into() } }
            15 => { if let Some(pa) = blk.proposer_action.as_mut() { pa.reward_dest.0 .0[0] ^= 1; self.dict.cov(pa.reward_dest); what = "reward_dest".into() } }
            16 => { if let Some(t) = blk.transactions.iter().next().cloned() { blk.transactions.remove(&t); let mut t2 = t.clone(); t2.sigs.push(Bytes::from(r.bytes(3))); blk.transactions.insert(t2); what = "tx sigs".into() } else { what = "tx sigs (none)".into() } }
            _ => { if let Some(t) = blk.transactions.iter().next().cloned() { let mut t2 = t.clone(); t2.sigs.push(Bytes::from(r.bytes(3))); blk.transactions.insert(t2); what = "add sig-variant of a tx".into() } else { what = "add sig-variant (none)".into() } }
        }
        let order: Vec<Transaction> = blk.transactions.iter().cloned().collect();
        let names = self.txlist(&order);
        // roots of the header the implementation recomputes (same public calls, same order)
        let recomputed = catch_unwind(AssertUnwindSafe(|| {
            let mut u = parent.next_unsealed();
            match u.apply_tx_batch(&order) { Ok(()) => Some(u.seal(blk.proposer_action).header()), Err(_) => None }
        }));
        let rr = match &recomputed { Ok(Some(h)) => roots_of(h), _ => roots_zero() };
        if let Some(hdr) = self.last_header_of(&parent) { self.note_header(&hdr); }
        self.note_header(&ph);
        { // oracles for covenants run inside apply_block
            let saved = std::mem::replace(&mut self.mode, Mode::U(parent.next_unsealed()));
            self.collect_vm_oracles(&order, &ph);
            self.mode = saved;
            let nu = parent.next_unsealed();
            self.collect_melpow(&nu, &order);
        }
        let res = catch_unwind(AssertUnwindSafe(|| parent.apply_block(&blk)));
        let code = match res {
            Ok(Ok(s)) => { self.note_header(&s.header()); self.mode = Mode::S(s); 0 }
            Ok(Err(e)) => err_code(&e),
            Err(p) => { let m = crate::panic_msg(&p); self.classify_panic(&m); self.viol("C09", format!("apply_block panicked: {}", m)); 100 }
        };
        if mutate == 0 && code != 0 {
            self.viol("C06", format!("honest block rejected with {}", code));
            self.viol("C03", format!("a block whose transactions apply as one batch is rejected by apply_block ({}): validity depends on how the set is presented", code));
        }
        if mutate != 0 && code == 0 && !what.contains("(none)") && what != "honest" {
            if what == "delta" { self.tag("F17"); }
            self.viol("C06", format!("block with mutated {} accepted", what));
        }
        self.push_step(format!("OpApplyBlock {} {} {} {} {}", header(&ph), header(&blk.header), names, action(&blk.proposer_action), rr), code, &format!("apply_block({})", what));
        code
    }
    fn last_header_of(&self, s: &SealedState<InMemoryCas>) -> Option<Header> { Some(s.header()) }

    pub fn coq(&mut self) -> String {
        let t = &self.tables;
        let liq: Vec<(String, String)> = self.dict.pools.values().map(|k| (poolkey_code(k), match k.liq_token_denom() { Denom::Custom(h) => hn(&h.0), _ => "0".into() })).collect();
        let mut liq = liq; liq.sort(); liq.dedup();
        // the wallet's signature covenants as the library builds them (tie for STF/Proofs/StdCovenant.v)
        let mut stdc: Vec<(bool, Vec<u8>, Vec<u8>)> = self.covs.values().filter_map(|c| match c.kind {
            CovKind::SigNew(k) => Some((true, self.keys.pk[k].0.to_vec(), Covenant::std_ed25519_pk_new(self.keys.pk[k]).to_bytes().to_vec())),
            CovKind::SigLegacy(k) => Some((false, self.keys.pk[k].0.to_vec(), Covenant::std_ed25519_pk_legacy(self.keys.pk[k]).to_bytes().to_vec())),
            _ => None }).collect();
        stdc.sort();
        let tables = format!("{{| ot_hashes := {}; ot_sigs := {}; ot_reward := {}; ot_marker := {}; ot_liq := {}; ot_hdr := {}; ot_melpow := {}; ot_ed := {}; ot_std := {} |}}",
            cf::list(&t.hashes, |(a, b)| format!("({}, {})", cf::bytes(a), cf::bytes(b))),
            cf::list(&t.sigs, |((a, b, c), r)| format!("(({}, {}, {}), {})", cf::bytes(a), cf::bytes(b), cf::bytes(c), r)),
            cf::list(&t.reward.iter().collect::<Vec<_>>(), |(h, v)| format!("({}, {})", h, hn(v))),
            cf::list(&t.marker.iter().collect::<Vec<_>>(), |(h, v)| format!("({}, {})", hn(h), hn(v))),
            cf::list(&liq, |(a, b)| format!("({}, {})", a, b)),
            cf::list(&t.hdr, |h| format!("({}, {})", header(h), hn(&h.hash()))),
            cf::list(&t.melpow, |((p, s, c, d), v)| format!("(({}, {}, {}, {}), {})", p, hn(s), coin_key(c), d, v)),
            cf::list(&t.ed, |((k, m, s), r)| format!("(({}, {}, {}), {})", U256::from_be_bytes(k.0), hn(m), cf::bytes(s), r)),
            cf::list(&stdc, |(n, pk, b)| format!("({}, ({}, {}))", n, cf::bytes(pk), cf::bytes(b))));
        let mut s = self.defs.join("\n");
        s.push_str(&format!("\nDefinition {} : scenario := {{| sc_tables := {};\n sc_init := {};\n sc_steps := [\n{}\n] |}}.\n", self.name, tables, self.init, self.steps.join(";\n")));
        s
    }

    pub fn meta(&self) -> String {
        let mut vm: BTreeMap<String, String> = BTreeMap::new();
        for (st, p, w) in &self.violates { vm.entry(p.clone()).or_insert(format!("step {}: {}", st, w)); }
        let viol: Vec<String> = vm.iter().map(|(k, v)| format!("{:?}:{:?}", k, v)).collect();
        let sv: Vec<String> = self.violates.iter().map(|(st, p, w)| format!("[{},{:?},{:?}]", st, p, w)).collect();
        let sc: Vec<String> = self.class.iter().map(|(st, c)| format!("[{},{:?}]", st, c)).collect();
        let cnt: Vec<String> = self.counters.iter().map(|(k, v)| format!("{:?}:{}", k, v)).collect();
        let accepted = self.counters.get("code_0").copied().unwrap_or(0);
        let rejected: u64 = self.counters.iter().filter(|(k, _)| k.starts_with("code_") && *k != "code_0").map(|(_, v)| *v).sum();
        let mut classes: Vec<String> = self.class.iter().map(|(_, c)| format!("{:?}", c)).collect(); classes.sort(); classes.dedup();
        format!("{{\"scenario\":{:?},\"ops\":{:?},\"counters\":{{{}}},\"violates\":{{{}}},\"step_violations\":[{}],\"step_classes\":[{}],\"class\":[{}],\"nontrivial\":{},\"unknown_keys\":{:?}}}",
            self.name, self.log, cnt.join(","), viol.join(","), sv.join(","), sc.join(","), classes.join(","),
            accepted > 2 && rejected > 0, self.unknown_keys.iter().take(3).collect::<Vec<_>>())
    }
}

fn clone_dump(d: &Dump) -> Dump {
    Dump { network: d.network, height: d.height, history: d.history.clone(), coins: d.coins.clone(), counts: d.counts.clone(), txs: d.txs.clone(),
        fee_pool: d.fee_pool, mult: d.mult, tips: d.tips, speed: d.speed, pools: d.pools.clone(), stakes: d.stakes.clone(), unknown: vec![] }
}

// ---------------------------------------------------------------- transaction generator
pub struct Wallet { pub coins: Vec<(CoinID, CoinDataHeight)> }

impl Scenario {
    pub fn wallet(&mut self) -> Wallet {
        let d = dump(self.ustate(), &self.dict);
        let coins = d.coins.into_iter().filter(|(_, c)| self.covs.contains_key(&c.coin_data.covhash)).collect();
        Wallet { coins }
    }
    fn my_addr(&self, r: &mut Rng, spendable: bool) -> Address {
        let mut v: Vec<(&Address, &CovInfo)> = self.covs.iter().collect();
        v.sort_by_key(|(a, _)| **a);
        let good: Vec<Address> = v.iter().filter(|(_, c)| matches!(c.kind, CovKind::AlwaysTrue | CovKind::SigNew(_) | CovKind::SigLegacy(_))).map(|(a, _)| **a).collect();
        if spendable || r.chance(4, 5) { *r.pick(&good) } else { *v[r.below(v.len() as u64) as usize].0 }
    }

    /// completes a transaction: covenants for its inputs, fee at min_fee + tip, MEL change, signatures
    pub fn finish_tx(&mut self, r: &mut Rng, mut t: Transaction, inputs: &[(CoinID, CoinDataHeight)], fee_adj: i128, tip: u128) -> Transaction {
        t.inputs = inputs.iter().map(|(i, _)| *i).collect();
        let mut seen = HashSet::new();
        t.covenants = vec![];
        for (_, c) in inputs {
            if seen.insert(c.coin_data.covhash) {
                if let Some(ci) = self.covs.get(&c.coin_data.covhash) { t.covenants.push(Bytes::from(ci.bytes.clone())); }
            }
        }
        // sometimes list a covenant twice, or carry an unused / undecodable one (all are charged for)
        if !t.covenants.is_empty() && r.chance(1, 6) { let c0 = t.covenants[0].clone(); t.covenants.push(c0); self.bump("tx_duplicate_covenant"); }
        if r.chance(1, 12) {
            // an unused covenant is charged for like any other; sometimes one with nested loops, whose weight is a product
            let ops = if r.chance(1, 2) { vec![OpCode::Loop(3, 1), OpCode::Noop, OpCode::PushI(U256::ONE)] }
                      else { vec![OpCode::Loop(7, 3), OpCode::Loop(5, 2), OpCode::Noop, OpCode::Noop, OpCode::PushI(U256::ONE)] };
            t.covenants.push(Bytes::from(Covenant::from_ops(&ops).to_bytes().to_vec())); self.bump("tx_unused_covenant");
        }
        let mult = self.ustate().verif_fee_multiplier();
        let in_mel: u128 = inputs.iter().filter(|(_, c)| c.coin_data.denom == Denom::Mel).map(|(_, c)| c.coin_data.value.0).sum();
        let out_mel: u128 = t.outputs.iter().filter(|o| o.denom == Denom::Mel).map(|o| o.value.0).sum();
        // placeholder signatures so that the serialized length is final
        t.sigs = inputs.iter().map(|_| Bytes::from(vec![0u8; 64])).collect();
        let change_addr = match self.fixed_change { Some(a) => a, None => self.my_addr(r, true) };
        let mut fee;
        if t.kind != TxKind::Faucet && in_mel > out_mel {
            t.outputs.push(CoinData { covhash: change_addr, value: CoinValue(0), denom: Denom::Mel, additional_data: Bytes::new() });
            let ci = t.outputs.len() - 1;
            fee = 0u128;
            for _ in 0..4 {
                t.fee = CoinValue(fee);
                t.outputs[ci].value = CoinValue((in_mel - out_mel).saturating_sub(fee));
                let min = t.base_fee(mult, 0, melvm::covenant_weight_from_bytes).0;
                fee = (min + tip).min(in_mel - out_mel);
            }
            t.fee = CoinValue(((fee as i128) + fee_adj).max(0) as u128);
            t.outputs[ci].value = CoinValue((in_mel - out_mel).saturating_sub(t.fee.0));
            if t.outputs[ci].value.0 == 0 && r.chance(1, 2) { t.outputs.remove(ci); }
        } else if t.kind == TxKind::Faucet {
            let min = { t.fee = CoinValue(1 << 30); t.base_fee(mult, 0, melvm::covenant_weight_from_bytes).0 };
            t.fee = CoinValue(((min + tip) as i128 + fee_adj).max(0) as u128);
        }
        // sign: slot i for input i (new-style), slot 0 for legacy
        let h = t.hash_nosigs();
        let mut sigs: Vec<Bytes> = vec![];
        for (_, c) in inputs.iter() {
            let k = match self.covs.get(&c.coin_data.covhash).map(|c| &c.kind) { Some(CovKind::SigNew(k)) | Some(CovKind::SigLegacy(k)) => Some(*k), _ => None };
            sigs.push(match k { Some(k) => Bytes::from(self.keys.sk[k].sign(&h.0)), None => Bytes::new() });
        }
        // legacy covenants read slot 0: if any input is legacy, its signature goes first
        if let Some(pos) = inputs.iter().position(|(_, c)| matches!(self.covs.get(&c.coin_data.covhash).map(|c| &c.kind), Some(CovKind::SigLegacy(_)))) { sigs.swap(0, pos); }
        if !r.chance(1, 5) { while sigs.last().map(|s| s.is_empty()).unwrap_or(false) { sigs.pop(); } }
        t.sigs = sigs;
        t
    }

    fn pick_inputs(&self, r: &mut Rng, w: &Wallet, n: usize, need_mel: bool, exclude: &HashSet<CoinID>) -> Vec<(CoinID, CoinDataHeight)> {
        let stakes = self.ustate().verif_stakes();
        let mut pool: Vec<&(CoinID, CoinDataHeight)> = w.coins.iter().filter(|(id, c)| !exclude.contains(id)
            && stakes.get_stake(id.txhash).is_none()
            && matches!(self.covs.get(&c.coin_data.covhash).map(|x| &x.kind), Some(CovKind::AlwaysTrue) | Some(CovKind::SigNew(_)) | Some(CovKind::SigLegacy(_)) | Some(CovKind::ValueAtLeast(_)))).collect();
        let mut out = vec![];
        if need_mel {
            let mels: Vec<usize> = pool.iter().enumerate().filter(|(_, (_, c))| c.coin_data.denom == Denom::Mel && c.coin_data.value.0 > 100_000).map(|(i, _)| i).collect();
            if mels.is_empty() { return vec![]; }
            let i = *r.pick(&mels);
            out.push(pool.remove(i).clone());
        }
        while out.len() < n && !pool.is_empty() { let i = r.below(pool.len() as u64) as usize; out.push(pool.remove(i).clone()); }
        // at most one legacy-signature input (they all read slot 0)
        let mut seen_legacy = false;
        out.retain(|(_, c)| { if matches!(self.covs.get(&c.coin_data.covhash).map(|x| &x.kind), Some(CovKind::SigLegacy(_))) { if seen_legacy { return false; } seen_legacy = true; } true });
        out
    }

    fn split_outputs(&mut self, r: &mut Rng, inputs: &[(CoinID, CoinDataHeight)]) -> Vec<CoinData> {
        let mut per: BTreeMap<Denom, u128> = BTreeMap::new();
        for (_, c) in inputs { if c.coin_data.denom != Denom::Mel { *per.entry(c.coin_data.denom).or_insert(0) += c.coin_data.value.0; } }
        let mut outs = vec![];
        for (d, v) in per {
            let parts = r.range(1, 3);
            let mut left = v;
            for p in 0..parts {
                let x = if p == parts - 1 { left } else { r.below128(left + 1) };
                left -= x;
                let a = self.my_addr(r, false);
                outs.push(CoinData { covhash: a, value: CoinValue(x), denom: d, additional_data: if r.chance(1, 5) { Bytes::from(r.bytes(3)) } else { Bytes::new() } });
            }
        }
        outs
    }

    pub fn gen_normal(&mut self, r: &mut Rng, w: &Wallet, exclude: &HashSet<CoinID>) -> Option<Transaction> {
        let n = r.range(1, 3) as usize;
        let mut inputs = self.pick_inputs(r, w, n, true, exclude);
        if inputs.is_empty() { return None; }
        // sometimes a staked output rides along as a later input (must be rejected while the stake lives)
        if r.chance(1, 10) {
            let stakes = self.ustate().verif_stakes();
            if let Some(c) = w.coins.iter().find(|(id, _)| stakes.get_stake(id.txhash).is_some() && !exclude.contains(id)) { inputs.push(c.clone()); self.bump("tx_with_staked_later_input"); }
        }
        let mut t = Transaction::new(TxKind::Normal);
        t.outputs = self.split_outputs(r, &inputs);
        let in_mel: u128 = inputs.iter().filter(|(_, c)| c.coin_data.denom == Denom::Mel).map(|(_, c)| c.coin_data.value.0).sum();
        // a few MEL outputs (leave plenty for the fee)
        let k = r.below(3);
        let mut budget = in_mel / 2;
        for _ in 0..k { let v = r.below128(budget / 2 + 1); budget -= v; let a = if r.chance(1, 12) { Address::coin_destroy() } else { self.my_addr(r, false) }; t.outputs.push(CoinData { covhash: a, value: CoinValue(v), denom: Denom::Mel, additional_data: Bytes::new() }); }
        if r.chance(1, 6) { let a = self.my_addr(r, true); t.outputs.push(CoinData { covhash: a, value: CoinValue(*r.pick(&[1u128, 1000, 1 << 60])), denom: Denom::NewCustom, additional_data: Bytes::new() }); }
        if r.chance(1, 8) { let n = r.range(1, 40) as usize; t.data = Bytes::from(r.bytes(n)); }
        let tip = *r.pick(&[0u128, 0, 1, 1000]);
        Some(self.finish_tx(r, t, &inputs, 0, tip))
    }

    pub fn gen_faucet(&mut self, r: &mut Rng) -> Transaction {
        let mut t = Transaction::new(TxKind::Faucet);
        let n = if r.chance(1, 12) { 0 } else { r.range(1, 3) };
        for _ in 0..n {
            let a = self.my_addr(r, true);
            t.outputs.push(CoinData { covhash: a, value: CoinValue(*r.pick(&[1u128 << 40, 1 << 50, 5_000_000, 1 << 90])), denom: *r.pick(&[Denom::Mel, Denom::Mel, Denom::Sym, Denom::Erg]), additional_data: Bytes::new() });
        }
        t.data = Bytes::from(r.bytes(8));
        self.finish_tx(r, t, &[], 0, 0)
    }

    fn pool_denoms(&self, r: &mut Rng, w: &Wallet) -> (Denom, Denom) {
        let mut ds: Vec<Denom> = w.coins.iter().map(|(_, c)| c.coin_data.denom).filter(|d| *d != Denom::Mel).collect();
        ds.sort(); ds.dedup();
        let other = if ds.is_empty() || r.chance(1, 3) { *r.pick(&[Denom::Sym, Denom::Erg]) } else { *r.pick(&ds) };
        if r.chance(1, 8) { (Denom::Erg, Denom::Sym) } else { (Denom::Mel, other) }
    }

    pub fn gen_swap(&mut self, r: &mut Rng, w: &Wallet, exclude: &HashSet<CoinID>) -> Option<Transaction> {
        let (a, b) = self.pool_denoms(r, w);
        let key = PoolKey::new(a, b);
        let from = if r.chance(1, 2) { key.left() } else { key.right() };
        let mut inputs = self.pick_inputs(r, w, 1, true, exclude);
        if inputs.is_empty() { return None; }
        if from != Denom::Mel {
            match w.coins.iter().find(|(id, c)| c.coin_data.denom == from && !exclude.contains(id) && !inputs.iter().any(|(i, _)| i == id) && matches!(self.covs.get(&c.coin_data.covhash).map(|x| &x.kind), Some(CovKind::AlwaysTrue) | Some(CovKind::SigNew(_)))) {
                Some(c) => inputs.push(c.clone()), None => return None,
            }
        }
        let have: u128 = inputs.iter().filter(|(_, c)| c.coin_data.denom == from).map(|(_, c)| c.coin_data.value.0).sum();
        let amt = match r.below(6) { 0 => 1, 1 => have / 2, 2 => (have / 3).min(1 << 30), 3 => have.min(1000), _ => (have / 4).max(1) };
        let amt = if from == Denom::Mel { amt.min(have / 2) } else { amt.min(have) };
        let mut t = Transaction::new(TxKind::Swap);
        let dest = self.my_addr(r, true);
        t.outputs.push(CoinData { covhash: dest, value: CoinValue(amt), denom: from, additional_data: Bytes::new() });
        if from != Denom::Mel && have > amt { let a2 = self.my_addr(r, true); t.outputs.push(CoinData { covhash: a2, value: CoinValue(have - amt), denom: from, additional_data: Bytes::new() }); }
        // other non-MEL inputs pass through
        let mut rest = self.split_outputs(r, &inputs.iter().filter(|(_, c)| c.coin_data.denom != from).cloned().collect::<Vec<_>>());
        t.outputs.append(&mut rest);
        t.data = key.to_bytes();
        Some(self.finish_tx(r, t, &inputs, 0, 0))
    }

    pub fn gen_deposit(&mut self, r: &mut Rng, w: &Wallet, exclude: &HashSet<CoinID>) -> Option<Transaction> {
        let (a, b) = self.pool_denoms(r, w);
        let key = PoolKey::new(a, b);
        let mut inputs = self.pick_inputs(r, w, 1, true, exclude);
        if inputs.is_empty() { return None; }
        for d in [key.left(), key.right()] {
            if d == Denom::Mel { continue; }
            match w.coins.iter().find(|(id, c)| c.coin_data.denom == d && c.coin_data.value.0 > 0 && !exclude.contains(id) && !inputs.iter().any(|(i, _)| i == id) && matches!(self.covs.get(&c.coin_data.covhash).map(|x| &x.kind), Some(CovKind::AlwaysTrue) | Some(CovKind::SigNew(_)))) {
                Some(c) => inputs.push(c.clone()), None => return None,
            }
        }
        let have = |d: Denom| -> u128 { inputs.iter().filter(|(_, c)| c.coin_data.denom == d).map(|(_, c)| c.coin_data.value.0).sum() };
        let amount = |r: &mut Rng, d: Denom, h: u128| -> u128 { let m = if d == Denom::Mel { h / 2 } else { h }; match r.below(5) { 0 => m.min(4), 1 => m.min(1_000_000), 2 => m / 2, 3 => m.min(9), _ => (m / 3).max(1).min(m) } };
        let (hl, hr) = (have(key.left()), have(key.right()));
        let (vl, vr) = (amount(r, key.left(), hl), amount(r, key.right(), hr));
        let mut t = Transaction::new(TxKind::LiqDeposit);
        let dest = self.my_addr(r, true);
        t.outputs.push(CoinData { covhash: dest, value: CoinValue(vl), denom: key.left(), additional_data: Bytes::new() });
        t.outputs.push(CoinData { covhash: dest, value: CoinValue(vr), denom: key.right(), additional_data: Bytes::new() });
        for (d, h, v) in [(key.left(), hl, vl), (key.right(), hr, vr)] {
            if d != Denom::Mel && h > v { let a2 = self.my_addr(r, true); t.outputs.push(CoinData { covhash: a2, value: CoinValue(h - v), denom: d, additional_data: Bytes::new() }); }
        }
        t.data = key.to_bytes();
        Some(self.finish_tx(r, t, &inputs, 0, 0))
    }

    pub fn gen_withdraw(&mut self, r: &mut Rng, w: &Wallet, exclude: &HashSet<CoinID>) -> Option<Transaction> {
        // find a liquidity token we hold
        let keys: Vec<PoolKey> = self.dict.pools.values().cloned().collect();
        let mut cands = vec![];
        for (id, c) in &w.coins {
            if exclude.contains(id) { continue; }
            if !matches!(self.covs.get(&c.coin_data.covhash).map(|x| &x.kind), Some(CovKind::AlwaysTrue) | Some(CovKind::SigNew(_))) { continue; }
            for k in &keys { if c.coin_data.denom == k.liq_token_denom() && c.coin_data.value.0 > 0 { cands.push((*id, c.clone(), *k)); } }
        }
        if cands.is_empty() { return None; }
        let (id, c, key) = r.pick(&cands).clone();
        let mut inputs = self.pick_inputs(r, w, 1, true, exclude);
        if inputs.is_empty() { return None; }
        inputs.push((id, c.clone()));
        let have = c.coin_data.value.0;
        let amt = match r.below(4) { 0 => have, 1 => 1, 2 => have / 2, _ => have.min(1000) }.max(1).min(have);
        let mut t = Transaction::new(TxKind::LiqWithdraw);
        let dest = self.my_addr(r, true);
        t.outputs.push(CoinData { covhash: dest, value: CoinValue(amt), denom: c.coin_data.denom, additional_data: Bytes::new() });
        t.data = key.to_bytes();
        // LiqWithdraw requests must have exactly one output: burn the MEL change into the fee, the rest of the token is lost
        let mult = self.ustate().verif_fee_multiplier();
        let mut t = self.finish_tx(r, t, &inputs, 0, 0);
        if t.outputs.len() > 1 && r.chance(3, 4) {
            let change = t.outputs.pop().unwrap();
            t.fee = CoinValue(t.fee.0 + change.value.0);
            let _ = mult;
            // re-sign (the hash changed)
            let ins: Vec<(CoinID, CoinDataHeight)> = inputs.clone();
            let h = t.hash_nosigs();
            let mut sigs: Vec<Bytes> = vec![];
            for (_, c) in ins.iter() {
                let k = match self.covs.get(&c.coin_data.covhash).map(|c| &c.kind) { Some(CovKind::SigNew(k)) | Some(CovKind::SigLegacy(k)) => Some(*k), _ => None };
                sigs.push(match k { Some(k) => Bytes::from(self.keys.sk[k].sign(&h.0)), None => Bytes::new() });
            }
            if let Some(pos) = ins.iter().position(|(_, c)| matches!(self.covs.get(&c.coin_data.covhash).map(|c| &c.kind), Some(CovKind::SigLegacy(_)))) { sigs.swap(0, pos); }
            t.sigs = sigs;
        }
        Some(t)
    }

    pub fn gen_stake(&mut self, r: &mut Rng, w: &Wallet, exclude: &HashSet<CoinID>) -> Option<Transaction> {
        let mut inputs = self.pick_inputs(r, w, 1, true, exclude);
        if inputs.is_empty() { return None; }
        let sym = w.coins.iter().find(|(id, c)| c.coin_data.denom == Denom::Sym && c.coin_data.value.0 > 0 && !exclude.contains(id) && !inputs.iter().any(|(i, _)| i == id) && matches!(self.covs.get(&c.coin_data.covhash).map(|x| &x.kind), Some(CovKind::AlwaysTrue) | Some(CovKind::SigNew(_))))?.clone();
        inputs.push(sym.clone());
        let have = sym.1.coin_data.value.0;
        let staked = (have / 2).max(1);
        let epoch = self.ustate().verif_height().0 / STAKE_EPOCH;
        let (es, ee) = match r.below(6) { 0 => (epoch, epoch + 2), 1 => (epoch + 1, epoch + 1), 2 => (epoch + 2, epoch + 1), _ => (epoch + 1, epoch + 1 + r.range(1, 3)) };
        let declared = if r.chance(1, 6) { staked + 1 } else { staked };
        let doc = StakeDoc { pubkey: self.keys.pk[r.below(3) as usize], e_start: es, e_post_end: ee, syms_staked: CoinValue(declared) };
        let mut t = Transaction::new(TxKind::Stake);
        let dest = self.my_addr(r, true);
        let d0 = if r.chance(1, 10) { Denom::Mel } else { Denom::Sym };
        t.outputs.push(CoinData { covhash: dest, value: CoinValue(if d0 == Denom::Sym { staked } else { 5 }), denom: d0, additional_data: Bytes::new() });
        if d0 == Denom::Sym && have > staked { let a2 = self.my_addr(r, true); t.outputs.push(CoinData { covhash: a2, value: CoinValue(have - staked), denom: Denom::Sym, additional_data: Bytes::new() }); }
        if d0 != Denom::Sym { let a2 = self.my_addr(r, true); t.outputs.push(CoinData { covhash: a2, value: CoinValue(have), denom: Denom::Sym, additional_data: Bytes::new() }); }
        t.data = if r.chance(1, 10) { Bytes::from(r.bytes(5)) } else { Bytes::from(doc.stdcode()) };
        Some(self.finish_tx(r, t, &inputs, 0, 0))
    }

    /// adversarial rewrites of an otherwise valid transaction
    pub fn mutate_tx(&mut self, r: &mut Rng, t: &Transaction, w: &Wallet) -> Transaction {
        let mut m = t.clone();
        match r.below(14) {
            0 => { if m.fee.0 > 0 { m.fee.0 -= 1; if let Some(o) = m.outputs.iter_mut().rev().find(|o| o.denom == Denom::Mel) { o.value.0 += 1; } } }
            1 => { m.inputs.push(CoinID::new(TxHash(tmelcrypt::hash_single(&r.bytes(4))), 0)); }
            2 => { if let Some(i) = m.inputs.first().cloned() { m.inputs.push(i); } }
            3 => { m.covenants.clear(); }
            4 => { if let Some(s) = m.sigs.first_mut() { let mut v = s.to_vec(); if !v.is_empty() { v[0] ^= 1; } *s = Bytes::from(v); } else { m.covenants.clear(); } }
            5 => { if let Some(o) = m.outputs.first_mut() { o.value.0 += 1; } }
            6 => { if let Some(o) = m.outputs.first_mut() { o.value = MAX_COINVAL + CoinValue(1); } }
            7 => { m.fee = MAX_COINVAL + CoinValue(1); }
            8 => { if let Some(o) = m.outputs.first_mut() { o.denom = Denom::Erg; } }
            9 => { if let Some((id, _)) = w.coins.iter().find(|(_, c)| matches!(self.covs.get(&c.coin_data.covhash).map(|x| &x.kind), Some(CovKind::Never) | Some(CovKind::Undecodable) | Some(CovKind::IndexZero) | Some(CovKind::HeightLock(_)))) { m.inputs.push(*id); let c = w.coins.iter().find(|(i, _)| i == id).unwrap().1.clone(); if let Some(ci) = self.covs.get(&c.coin_data.covhash) { m.covenants.push(Bytes::from(ci.bytes.clone())); } } else { m.covenants.clear(); } }
            10 => { m.covenants.push(Bytes::from(vec![0xff, 0xff])); }
            11 => { let o = CoinData { covhash: self.my_addr(r, true), value: CoinValue(0), denom: Denom::Mel, additional_data: Bytes::new() }; for _ in 0..(256 - m.outputs.len().min(255)) { m.outputs.push(o.clone()); } }
            12 => { m.sigs.insert(0, Bytes::from(vec![1, 2, 3])); }
            _ => { m.kind = *r.pick(&[TxKind::Normal, TxKind::Swap, TxKind::LiqDeposit, TxKind::LiqWithdraw, TxKind::Stake, TxKind::Faucet, TxKind::DoscMint]); }
        }
        m
    }

    /// an ERG mint with a real MelPoW proof of low difficulty; the amount asked is at the acceptance boundary
    /// (found by bisection on copies of the state), one above it, or far above it
    pub fn gen_doscmint(&mut self, r: &mut Rng, w: &Wallet, exclude: &HashSet<CoinID>) -> Option<Transaction> {
        let u = self.ustate().clone();
        let height = u.verif_height().0;
        let net = u.verif_network();
        let min_age = if net == NetID::Mainnet { 100 } else { 1 };
        let c = w.coins.iter().find(|(id, c)| !exclude.contains(id) && c.coin_data.denom == Denom::Mel && c.coin_data.value.0 > 1_000_000
            && c.height.0 + min_age <= height && u.verif_stakes().get_stake(id.txhash).is_none()
            && matches!(self.covs.get(&c.coin_data.covhash).map(|x| &x.kind), Some(CovKind::AlwaysTrue) | Some(CovKind::SigNew(_))))?.clone();
        let hist = melstf::SmtMapping::<InMemoryCas, BlockHeight, Header>::new(u.verif_history());
        let seed = hist.get(&c.1.height)?;
        let difficulty = r.range(6, 12) as u32;
        let puzzle = tmelcrypt::hash_keyed(seed.hash(), &stdcode::serialize(&c.0).unwrap());
        let proof = melpow_proof(&puzzle, difficulty as usize);
        let dest = self.my_addr(r, true);
        let build = |sc: &mut Scenario, r: &mut Rng, ergs: u128| -> Transaction {
            let mut t = Transaction::new(TxKind::DoscMint);
            t.outputs = vec![CoinData { covhash: dest, value: CoinValue(ergs), denom: Denom::Erg, additional_data: Bytes::new() }];
            t.data = Bytes::from(stdcode::serialize(&(difficulty, proof.clone())).unwrap());
            sc.finish_tx(r, t, &[c.clone()], 0, 0)
        };
        // largest accepted amount, by bisection on the implementation itself
        let accepted = |sc: &mut Scenario, r: &mut Rng, ergs: u128| -> bool {
            let t = build(sc, r, ergs);
            let mut w2 = sc.ustate().clone();
            catch_unwind(AssertUnwindSafe(|| w2.apply_tx_batch(&[t]).is_ok())).unwrap_or(false)
        };
        let (mut lo, mut hi) = (0u128, 1u128 << 40);
        if !accepted(self, r, 0) { self.bump("mint_not_acceptable"); return Some(build(self, r, 1)); }
        for _ in 0..42 { let mid = lo + (hi - lo) / 2; if accepted(self, r, mid) { lo = mid } else { hi = mid } if hi - lo <= 1 { break; } }
        let ask = match r.below(4) { 0 => lo, 1 => lo + 1, 2 => lo / 2, _ => lo.saturating_mul(1000) + 5 };
        self.bump(if ask <= lo { "mint_within_bound" } else { "mint_above_bound" });
        Some(build(self, r, ask))
    }

    pub fn gen_tx(&mut self, r: &mut Rng, w: &Wallet, exclude: &HashSet<CoinID>) -> Option<Transaction> {
        let net = self.ustate().verif_network();
        let c = r.below(100);
        if c >= 96 { if let Some(t) = self.gen_doscmint(r, w, exclude) { return Some(t); } }
        let t = if c < 35 { self.gen_normal(r, w, exclude) }
            else if c < 50 { if net == NetID::Mainnet && r.chance(9, 10) { self.gen_normal(r, w, exclude) } else { Some(self.gen_faucet(r)) } }
            else if c < 65 { self.gen_swap(r, w, exclude) }
            else if c < 78 { self.gen_deposit(r, w, exclude) }
            else if c < 88 { self.gen_withdraw(r, w, exclude) }
            else { self.gen_stake(r, w, exclude) };
        t.or_else(|| if net != NetID::Mainnet { Some(self.gen_faucet(r)) } else { self.gen_normal(r, w, exclude) })
    }
}

fn gen_action(r: &mut Rng, sc: &mut Scenario) -> Option<ProposerAction> {
    if r.chance(1, 4) { return None; }
    let d = match r.below(6) { 0 => -128i8, 1 => 127, 2 => 0, 3 => -1, 4 => 1, _ => r.next() as i8 };
    Some(ProposerAction { fee_multiplier_delta: d, reward_dest: sc.my_addr(r, true) })
}

pub fn run_scenario(name: &str, r: &mut Rng, nblocks: usize) -> Scenario {
    let net = *r.pick(&[NetID::Custom02, NetID::Custom02, NetID::Custom08, NetID::Testnet, NetID::Mainnet, NetID::Custom05]);
    let mult = *r.pick(&[1_000_000u128, 1000, 65536, 200, 130, 1 << 40, 256]);
    let fee_pool = *r.pick(&[0u128, 1 << 20, 6_553_600_000_000, 1 << 64]);
    let mut sc = Scenario::new(name, r, net, mult, fee_pool);
    // on the networks with height-dependent rules, half of the histories start just below a height at which a rule changes
    // (TIP activations, the legacy staking / deposit rules, staking epochs, the subsidy halving, the inflator table)
    if matches!(net, NetID::Testnet | NetID::Mainnet) && r.chance(1, 2) {
        let b = *r.pick(&[500u64, 42_700, 180_000, 200_000, 400_000, 500_000, 830_000, 900_000, 950_000, 978_392, 1_048_000, 1_950_000, 3_000_000]);
        let h = b - r.range(1, 3);
        sc.jump_to_height(h);
        sc.bump("history_starts_below_a_rule_height");
    } else if r.chance(1, 8) {
        let h = STAKE_EPOCH * r.range(1, 3) - r.range(1, 3);
        sc.jump_to_height(h);
        sc.bump("history_starts_below_an_epoch_boundary");
    }
    for _b in 0..nblocks {
        let via_block = r.chance(1, 4) && matches!(sc.mode, Mode::S(_));
        if via_block {
            // transactions generated against the next unsealed state
            let parent = match &sc.mode { Mode::S(s) => s.clone(), _ => unreachable!() };
            let saved = std::mem::replace(&mut sc.mode, Mode::U(parent.next_unsealed()));
            let w = sc.wallet();
            let mut ex = HashSet::new();
            let mut txs = vec![];
            for _ in 0..r.range(0, 3) { if let Some(t) = sc.gen_tx(r, &w, &ex) { for i in &t.inputs { ex.insert(*i); } txs.push(t); } }
            sc.mode = saved;
            let a = gen_action(r, &mut sc);
            let mutate = if r.chance(1, 2) { 0 } else { r.range(1, 17) as u32 };
            let code = sc.op_apply_block(&txs, a, mutate, r);
            if code == 999 { sc.bump("block_not_buildable"); }
            if code != 0 { // fall back so the history goes on
                let c2 = sc.op_apply_block(&[], None, 0, r);
                if c2 != 0 { break; }
            }
        } else {
            if let Mode::S(_) = sc.mode { sc.op_next(); }
            let nb = r.range(1, 3);
            for _ in 0..nb {
                let w = sc.wallet();
                let mut ex = HashSet::new();
                let mut txs: Vec<Transaction> = vec![];
                let n = r.range(1, 4);
                for _ in 0..n {
                    if let Some(t) = sc.gen_tx(r, &w, &ex) { for i in &t.inputs { ex.insert(*i); } txs.push(t); }
                }
                // a dependent transaction spending an output of the batch
                if r.chance(1, 3) && !txs.is_empty() {
                    let parent = r.pick(&txs).clone();
                    let h = parent.hash_nosigs();
                    let height = sc.ustate().verif_height();
                    let vw = Wallet { coins: parent.outputs.iter().enumerate().filter(|(_, o)| o.covhash != Address::coin_destroy()).map(|(i, o)| { let mut cd = o.clone(); if cd.denom == Denom::NewCustom { cd.denom = Denom::Custom(h); } (CoinID::new(h, i as u8), CoinDataHeight { coin_data: cd, height }) }).collect() };
                    if let Some(t) = sc.gen_normal(r, &vw, &HashSet::new()) {
                        if r.chance(1, 5) {
                            // a second, different transaction spending the same in-batch coins
                            if let Some(t2) = sc.gen_normal(r, &vw, &HashSet::new()) { if t2.hash_nosigs() != t.hash_nosigs() && t2.inputs.iter().any(|i| t.inputs.contains(i)) { txs.push(t2); sc.bump("inbatch_double_spend"); } }
                        } else if r.chance(1, 6) {
                            // the same in-batch coin listed twice by one transaction
                            let ins: Vec<(CoinID, CoinDataHeight)> = vw.coins.iter().filter(|(id, _)| t.inputs.contains(id)).cloned().collect();
                            if let Some(first) = ins.first().cloned() { let mut ins2 = ins.clone(); ins2.push(first); let mut t3 = Transaction::new(TxKind::Normal); t3.outputs = t.outputs.iter().filter(|o| o.denom != Denom::Mel).cloned().collect(); let t3 = sc.finish_tx(r, t3, &ins2, 0, 0); txs.push(t3); sc.bump("inbatch_same_input_twice"); }
                        }
                        if r.chance(1, 2) { txs.push(t); } else { txs.insert(0, t); }
                        sc.bump("dependent_tx");
                    }
                }
                if r.chance(1, 4) && !txs.is_empty() { let i = r.below(txs.len() as u64) as usize; let m = sc.mutate_tx(r, &txs[i].clone(), &w); txs[i] = m; sc.bump("mutated_tx"); }
                if r.chance(1, 10) && !txs.is_empty() { let t = txs[0].clone(); txs.push(t); }
                // shuffle
                for i in (1..txs.len()).rev() { let j = r.below(i as u64 + 1) as usize; txs.swap(i, j); }
                let code = sc.op_batch(&txs);
                if code != 0 && txs.len() > 1 {
                    // retry the members one by one so the history keeps moving
                    for t in txs.iter().take(3) { sc.op_batch(std::slice::from_ref(t)); }
                }
            }
            let a = gen_action(r, &mut sc);
            if sc.op_seal(a) != 0 { break; }
            if r.chance(1, 3) { sc.op_restart(); }
            if r.chance(1, 3) { let mut signers: Vec<(usize, bool)> = vec![]; for k in 0..3 { if r.chance(1, 2) { signers.push((k, r.chance(9, 10))); } } sc.op_confirm(&signers); }
        }
    }
    sc
}

pub fn run(tier: &str, seed: u64, em: &mut Emitter) {
    let mut r = Rng::new(seed ^ 0x57F);
    let n = if tier == "thorough" { 600 } else { 48 };
    let per_file = 6;
    let mut st = Stats::default();
    let mut file_defs: Vec<String> = vec![];
    let mut file_names: Vec<String> = vec![];
    let mut file_meta: Vec<String> = vec![];
    let mut k = 0;
    let flush = |em: &mut Emitter, k: usize, defs: &mut Vec<String>, names: &mut Vec<String>, metas: &mut Vec<String>| {
        if names.is_empty() { return; }
        let mut s = String::from("From MelVerif Require Import Cases.Reflect.\nOpen Scope N_scope.\n");
        s.push_str(&defs.join("\n"));
        s.push_str(&format!("\nEval vm_compute in (run_scenarios 0 [{}]).\n", names.join("; ")));
        s.push_str(&format!("Eval vm_compute in (reflect_scenarios 0 [{}]).\n", names.join("; ")));
        em.raw_file(&format!("stf_{:03}", k), &s, metas.clone());
        defs.clear(); names.clear(); metas.clear();
    };
    let mut rd = r.fork();
    // every history is executed twice in this process; the second execution must reproduce the first
    // (accept / reject pattern and every state), otherwise some state outside the arguments leaks between calls
    let rd_again = Rng(rd.0);
    let mut first = directed(&mut rd);
    {
        let mut rd2 = rd_again;
        let second = directed(&mut rd2);
        for (a, b) in first.iter_mut().zip(second.iter()) { a.compare_rerun(b); }
        st.add("histories_re_executed", second.len() as u64);
    }
    for mut sc in first {
        for (c, v) in &sc.counters { st.add(c, *v); }
        st.add("steps", sc.steps.len() as u64);
        st.bump("directed_scenarios");
        file_defs.push(sc.coq());
        file_names.push(sc.name.clone());
        file_meta.push(sc.meta());
        if file_names.len() == per_file { flush(em, k, &mut file_defs, &mut file_names, &mut file_meta); k += 1; }
    }
    flush(em, k, &mut file_defs, &mut file_names, &mut file_meta); k += 1;
    for i in 0..n {
        let mut rr = r.fork();
        let name = format!("sc{}", i);
        let nblocks = rr.range(2, if tier == "thorough" { 8 } else { 5 }) as usize;
        let mut rr2 = Rng(rr.0);
        let mut sc = run_scenario(&name, &mut rr, nblocks);
        { let again = run_scenario(&name, &mut rr2, nblocks); sc.compare_rerun(&again); st.bump("histories_re_executed"); }
        for (c, v) in &sc.counters { st.add(c, *v); }
        st.add("steps", sc.steps.len() as u64);
        st.bump(&format!("net_{:?}", sc.ustate().verif_network()));
        if !sc.unknown_keys.is_empty() { st.bump("scenarios_with_unknown_smt_keys"); }
        file_defs.push(sc.coq());
        file_names.push(name);
        file_meta.push(sc.meta());
        if file_names.len() == per_file { flush(em, k, &mut file_defs, &mut file_names, &mut file_meta); k += 1; }
    }
    flush(em, k, &mut file_defs, &mut file_names, &mut file_meta);
    em.stats("stf", st);
}

// ---------------------------------------------------------------- directed scenarios (regression corpus: runs first)
impl Scenario {
    fn at(&self) -> Address { *self.covs.iter().find(|(_, c)| matches!(c.kind, CovKind::AlwaysTrue)).unwrap().0 }
    fn addr_of(&self, f: impl Fn(&CovKind) -> bool) -> Address { *self.covs.iter().find(|(_, c)| f(&c.kind)).unwrap().0 }
    fn coin_of(&mut self, d: Denom, min: u128) -> Option<(CoinID, CoinDataHeight)> {
        let at = self.at();
        self.wallet().coins.into_iter().filter(|(_, c)| c.coin_data.denom == d && c.coin_data.covhash == at && c.coin_data.value.0 >= min).max_by_key(|(_, c)| c.coin_data.value.0)
    }
    fn cd(&self, a: Address, v: u128, d: Denom) -> CoinData { CoinData { covhash: a, value: CoinValue(v), denom: d, additional_data: Bytes::new() } }
    /// faucet paying the listed (value, denom) coins to the always-true address
    fn fund(&mut self, r: &mut Rng, coins: &[(u128, Denom)]) -> Transaction {
        let mut t = Transaction::new(TxKind::Faucet);
        let at = self.at();
        for (v, d) in coins { t.outputs.push(self.cd(at, *v, *d)); }
        t.data = Bytes::from(r.bytes(6));
        self.finish_tx(r, t, &[], 0, 0)
    }
    fn mk(&mut self, r: &mut Rng, kind: TxKind, inputs: &[(CoinID, CoinDataHeight)], outputs: Vec<CoinData>, data: Vec<u8>) -> Transaction {
        let mut t = Transaction::new(kind);
        t.outputs = outputs;
        t.data = Bytes::from(data);
        self.finish_tx(r, t, inputs, 0, 0)
    }
    fn block_end(&mut self, a: Option<ProposerAction>) -> bool { if self.op_seal(a) != 0 { return false; } self.op_next(); true }
}

/// a real MelPoW proof (legacy hash); proofs are cached under /verif/.cache/melpow (they are deterministic)
fn melpow_proof(puzzle: &HashVal, difficulty: usize) -> Vec<u8> {
    let dir = std::path::PathBuf::from(std::env::var("VERIF_CACHE").unwrap_or("/verif/.cache".into())).join("melpow");
    let _ = std::fs::create_dir_all(&dir);
    let f = dir.join(format!("{}-{}.bin", hex::encode(puzzle.0), difficulty));
    if let Ok(b) = std::fs::read(&f) { return b; }
    let p = melpow::Proof::generate(&puzzle.0, difficulty, melstf::LegacyMelPowHash).to_bytes();
    let _ = std::fs::write(&f, &p);
    p
}

fn base(name: &str, r: &mut Rng, net: NetID, mult: u128) -> Scenario {
    let mut sc = Scenario::new(name, r, net, mult, 1 << 20);
    sc.fixed_change = Some(sc.at());
    let f = sc.fund(r, &[(1 << 50, Denom::Mel), (1 << 50, Denom::Mel), (1 << 50, Denom::Mel), (1 << 40, Denom::Sym), (1 << 40, Denom::Erg)]);
    if net != NetID::Mainnet { sc.op_batch(&[f]); }
    sc
}

pub fn directed(r: &mut Rng) -> Vec<Scenario> {
    let mut out = vec![];
    let act = |sc: &Scenario, d: i8| Some(ProposerAction { fee_multiplier_delta: d, reward_dest: sc.at() });
    // F3: a Normal transaction and a LiqDeposit whose data names a pool
    {
        let mut sc = base("d_f3", r, NetID::Custom02, 1000);
        sc.block_end(None);
        let m = sc.coin_of(Denom::Mel, 1 << 40).unwrap();
        let at = sc.at();
        let t = sc.mk(r, TxKind::Normal, &[m], vec![sc.cd(at, 1 << 30, Denom::Mel)], b"s".to_vec());
        sc.op_batch(&[t]);
        sc.block_end(None);
        let m = sc.coin_of(Denom::Mel, 1 << 40).unwrap();
        let s = sc.coin_of(Denom::Sym, 1 << 30).unwrap();
        let t = sc.mk(r, TxKind::LiqDeposit, &[m, s.clone()], vec![sc.cd(at, 1 << 30, Denom::Mel), sc.cd(at, 1 << 30, Denom::Sym), sc.cd(at, s.1.coin_data.value.0 - (1 << 30), Denom::Sym)], b"s".to_vec());
        sc.op_batch(&[t]);
        sc.block_end(None);
        out.push(sc);
    }
    // F4: long-form spelling (Mel, Erg) of the canonical Erg/Mel pool; (Sym, Sym)
    {
        let mut sc = base("d_f4", r, NetID::Custom02, 1000);
        sc.block_end(None);
        let at = sc.at();
        let mut key = vec![0u8; 32]; key.extend_from_slice(&[1, 109, 1, 100]);
        let m = sc.coin_of(Denom::Mel, 1 << 40).unwrap();
        let t = sc.mk(r, TxKind::Swap, &[m], vec![sc.cd(at, 1 << 30, Denom::Mel)], key.clone());
        sc.dict.pool(PoolKey::from_bytes(&key).unwrap());
        sc.op_batch(&[t]);
        sc.block_end(None);
        let mut key2 = vec![0u8; 32]; key2.extend_from_slice(&[1, 115, 1, 115]);
        let m = sc.coin_of(Denom::Mel, 1 << 40).unwrap();
        let s = sc.coin_of(Denom::Sym, 1 << 30).unwrap();
        let t = sc.mk(r, TxKind::LiqDeposit, &[m, s.clone()], vec![sc.cd(at, 1000, Denom::Sym), sc.cd(at, 1000, Denom::Sym), sc.cd(at, s.1.coin_data.value.0 - 2000, Denom::Sym)], key2);
        sc.op_batch(&[t]);
        sc.block_end(None);
        out.push(sc);
    }
    // F5: zero-valued swap request
    {
        let mut sc = base("d_f5", r, NetID::Custom02, 1000);
        sc.block_end(None);
        let at = sc.at();
        let m = sc.coin_of(Denom::Mel, 1 << 40).unwrap();
        let t = sc.mk(r, TxKind::Swap, &[m], vec![sc.cd(at, 0, Denom::Mel)], b"s".to_vec());
        sc.op_batch(&[t]);
        sc.op_seal(None);
        out.push(sc);
    }
    // F7 / F6: two small deposits into a new pool; withdraw everything; swap against the emptied pool
    {
        let mut sc = base("d_f7", r, NetID::Custom02, 1000);
        let at = sc.at();
        let m = sc.coin_of(Denom::Mel, 1 << 40).unwrap();
        let t0 = sc.mk(r, TxKind::Normal, &[m], vec![sc.cd(at, 500, Denom::NewCustom), sc.cd(at, 500, Denom::NewCustom)], vec![]);
        let tok = Denom::Custom(t0.hash_nosigs());
        sc.op_batch(&[t0.clone()]);
        sc.block_end(None);
        let key = PoolKey::new(Denom::Mel, tok);
        sc.dict.pool(key);
        let mut deps = vec![];
        for i in 0..2u8 {
            let m = sc.wallet().coins.into_iter().filter(|(_, c)| c.coin_data.denom == Denom::Mel && c.coin_data.covhash == at && c.coin_data.value.0 >= 1 << 40).nth(i as usize).unwrap();
            let c = (CoinID::new(t0.hash_nosigs(), i), CoinDataHeight { coin_data: sc.cd(at, 500, tok), height: BlockHeight(0) });
            let (l, rr) = if key.left() == Denom::Mel { (sc.cd(at, 4, Denom::Mel), sc.cd(at, 4, tok)) } else { (sc.cd(at, 4, tok), sc.cd(at, 4, Denom::Mel)) };
            deps.push(sc.mk(r, TxKind::LiqDeposit, &[m, c], vec![l, rr, sc.cd(at, 496, tok)], key.to_bytes().to_vec()));
        }
        sc.op_batch(&deps);
        sc.block_end(None);
        // withdraw all liquidity tokens held, each in its own transaction
        let liq = key.liq_token_denom();
        let mut ws = vec![];
        let holders: Vec<(CoinID, CoinDataHeight)> = sc.wallet().coins.into_iter().filter(|(_, c)| c.coin_data.denom == liq).collect();
        let mels: Vec<(CoinID, CoinDataHeight)> = sc.wallet().coins.into_iter().filter(|(_, c)| c.coin_data.denom == Denom::Mel && c.coin_data.covhash == at && c.coin_data.value.0 >= 1 << 40).collect();
        for (i, h) in holders.iter().enumerate() {
            let mut t = Transaction::new(TxKind::LiqWithdraw);
            t.outputs = vec![sc.cd(at, h.1.coin_data.value.0, liq)];
            t.data = key.to_bytes();
            let mut t = sc.finish_tx(r, t, &[mels[i].clone(), h.clone()], 0, 0);
            if t.outputs.len() > 1 { let ch = t.outputs.pop().unwrap(); t.fee = CoinValue(t.fee.0 + ch.value.0); }
            ws.push(t);
        }
        sc.op_batch(&ws);
        if sc.block_end(None) {
            // F6: swap against the emptied pool
            if let Some(m) = sc.coin_of(Denom::Mel, 1 << 30) {
                let t = sc.mk(r, TxKind::Swap, &[m], vec![sc.cd(at, 1000, Denom::Mel)], key.to_bytes().to_vec());
                sc.op_batch(&[t]);
                sc.op_seal(None);
            }
        }
        out.push(sc);
    }
    // F8: DoscMint with an empty proof / difficulty 0 / difficulty 70
    for (i, (diff, proof)) in [(1u32, vec![]), (0u32, vec![0u8; 40]), (70u32, vec![0u8; 40])].iter().enumerate() {
        let mut sc = base(&format!("d_f8_{}", i), r, NetID::Custom02, 1000);
        sc.block_end(None);
        let at = sc.at();
        let m = sc.coin_of(Denom::Mel, 1 << 40).unwrap();
        let t = sc.mk(r, TxKind::DoscMint, &[m], vec![sc.cd(at, 5, Denom::Erg)], stdcode::serialize(&(*diff, proof.clone())).unwrap());
        sc.op_batch(&[t]);
        out.push(sc);
    }
    // F9: 255 outputs of 2^120 plus a fee of 2^120
    {
        let mut sc = base("d_f9", r, NetID::Custom02, 1000);
        sc.block_end(None);
        let at = sc.at();
        let m = sc.coin_of(Denom::Mel, 1 << 40).unwrap();
        let mut t = Transaction::new(TxKind::Normal);
        t.inputs = vec![m.0];
        t.outputs = vec![sc.cd(at, 1 << 120, Denom::Mel); 255];
        t.fee = CoinValue(1 << 120);
        t.covenants = vec![Bytes::from(Covenant::always_true().to_bytes().to_vec())];
        sc.op_batch(&[t]);
        out.push(sc);
    }
    // F11: fee multiplier edges
    for (i, (mult, d)) in [(1u128, -128i8), (0, -64), ((1u128 << 63) + 4096, -128), (1u128 << 70, 127), (1u128 << 70, -127), (300, -128), (255, 127), (2, -128)].iter().enumerate() {
        let mut sc = Scenario::new(&format!("d_f11_{}", i), r, NetID::Custom02, *mult, 1 << 20);
        let a = act(&sc, *d);
        sc.op_seal(a);
        out.push(sc);
    }
    // F15: an index-bound covenant on two coins spent in one transaction
    {
        let mut sc = base("d_f15", r, NetID::Custom02, 1000);
        let iz = sc.addr_of(|k| matches!(k, CovKind::IndexZero));
        let at = sc.at();
        let mut f = Transaction::new(TxKind::Faucet);
        f.outputs = vec![sc.cd(iz, 1 << 40, Denom::Mel), sc.cd(iz, 1 << 40, Denom::Mel)];
        let f = sc.finish_tx(r, f, &[], 0, 0);
        sc.op_batch(&[f.clone()]);
        sc.block_end(None);
        let ins: Vec<(CoinID, CoinDataHeight)> = (0..2u8).map(|i| (CoinID::new(f.hash_nosigs(), i), CoinDataHeight { coin_data: f.outputs[i as usize].clone(), height: BlockHeight(0) })).collect();
        let t = sc.mk(r, TxKind::Normal, &ins, vec![sc.cd(at, 1 << 40, Denom::Mel)], vec![]);
        sc.op_batch(&[t]);
        out.push(sc);
    }
    // F23: two covenants whose weights saturate u128
    {
        let mut sc = base("d_f23", r, NetID::Custom02, 1);
        sc.block_end(None);
        let at = sc.at();
        let m = sc.coin_of(Denom::Mel, 1 << 40).unwrap();
        let mut heavy: Vec<OpCode> = (0..9).map(|i| OpCode::Loop(65535, (9 - i) as u16)).collect();
        heavy.push(OpCode::Noop);
        let hb = Covenant::from_ops(&heavy).to_bytes();
        let mut heavy2 = heavy.clone(); heavy2.push(OpCode::Noop);
        let hb2 = Covenant::from_ops(&heavy2).to_bytes();
        let mut t = sc.mk(r, TxKind::Normal, &[m], vec![sc.cd(at, 1 << 30, Denom::Mel)], vec![]);
        t.covenants.push(hb); t.covenants.push(hb2);
        sc.op_batch(&[t]);
        out.push(sc);
    }
    // F24: the pool named by empty data (NewCustom/Mel)
    {
        let mut sc = base("d_f24", r, NetID::Custom02, 1000);
        sc.block_end(None);
        let at = sc.at();
        sc.dict.pool(PoolKey::from_bytes(b"").unwrap());
        let ms: Vec<(CoinID, CoinDataHeight)> = sc.wallet().coins.into_iter().filter(|(_, c)| c.coin_data.denom == Denom::Mel && c.coin_data.covhash == at && c.coin_data.value.0 >= 1 << 40).collect();
        let t = sc.mk(r, TxKind::LiqDeposit, &[ms[0].clone()], vec![sc.cd(at, 1000, Denom::NewCustom), sc.cd(at, 1 << 30, Denom::Mel)], vec![]);
        sc.op_batch(&[t]);
        if sc.block_end(None) {
            let ms: Vec<(CoinID, CoinDataHeight)> = sc.wallet().coins.into_iter().filter(|(_, c)| c.coin_data.denom == Denom::Mel && c.coin_data.covhash == at && c.coin_data.value.0 >= 1 << 40).collect();
            let t = sc.mk(r, TxKind::Swap, &[ms[0].clone()], vec![sc.cd(at, 1 << 60, Denom::NewCustom)], vec![]);
            sc.op_batch(&[t]);
            sc.block_end(None);
        }
        out.push(sc);
    }
    // regression for seeded defects: in-batch coins spent twice; duplicated covenants; signature variants in a block
    {
        let mut sc = base("d_inbatch_dspend", r, NetID::Custom02, 1000);
        sc.block_end(None);
        let at = sc.at();
        let m = sc.coin_of(Denom::Mel, 1 << 40).unwrap();
        let a = sc.mk(r, TxKind::Normal, &[m], vec![sc.cd(at, 1 << 35, Denom::Mel)], vec![]);
        let x = (CoinID::new(a.hash_nosigs(), 0), CoinDataHeight { coin_data: a.outputs[0].clone(), height: sc.ustate().verif_height() });
        let b = sc.mk(r, TxKind::Normal, &[x.clone()], vec![sc.cd(at, 1 << 30, Denom::Mel)], vec![1]);
        let c = sc.mk(r, TxKind::Normal, &[x.clone()], vec![sc.cd(at, 1 << 31, Denom::Mel)], vec![2]);
        sc.op_batch(&[a.clone(), b.clone(), c.clone()]);
        sc.op_batch(&[b.clone(), a.clone(), c]);
        let mut d = Transaction::new(TxKind::Normal);
        d.outputs = vec![sc.cd(at, 1 << 35, Denom::Mel)];
        let d = sc.finish_tx(r, d, &[x.clone(), x.clone()], 0, 0);
        sc.op_batch(&[a.clone(), d]);
        sc.op_batch(&[a, b]);
        sc.block_end(None);
        out.push(sc);
    }
    {
        let mut sc = base("d_dup_covenant", r, NetID::Custom02, 70000);
        sc.block_end(None);
        let at = sc.at();
        for copies in [2usize, 3] {
            let m = sc.coin_of(Denom::Mel, 1 << 40).unwrap();
            let mut t = Transaction::new(TxKind::Normal);
            t.outputs = vec![sc.cd(at, 1 << 30, Denom::Mel)];
            // fee computed by hand at exactly the minimum, with the covenant listed `copies` times
            t.inputs = vec![m.0];
            let cov = Covenant::from_ops(&[OpCode::PushI(U256::ONE), OpCode::PushI(U256::ONE), OpCode::Add, OpCode::Hash(500), OpCode::PushI(U256::ONE)]);
            let _ = cov;
            t.covenants = vec![Bytes::from(Covenant::always_true().to_bytes().to_vec()); copies];
            t.covenants.push(Bytes::from(Covenant::from_ops(&[OpCode::Hash(60000), OpCode::Hash(60000)]).to_bytes().to_vec()));
            t.covenants.push(Bytes::from(Covenant::from_ops(&[OpCode::Hash(60000), OpCode::Hash(60000)]).to_bytes().to_vec()));
            let in_mel = m.1.coin_data.value.0;
            t.outputs.push(sc.cd(at, 0, Denom::Mel));
            let mult = sc.ustate().verif_fee_multiplier();
            let mut fee = 0u128;
            for _ in 0..4 { t.fee = CoinValue(fee); t.outputs[1].value = CoinValue(in_mel - (1 << 30) - fee); fee = t.base_fee(mult, 0, melvm::covenant_weight_from_bytes).0; }
            t.fee = CoinValue(fee); t.outputs[1].value = CoinValue(in_mel - (1 << 30) - fee);
            // one unit less must be rejected
            let mut u = t.clone(); u.fee.0 -= 1; u.outputs[1].value.0 += 1;
            sc.op_batch(&[u]);
            sc.op_batch(&[t.clone()]);
        }
        let a = Some(ProposerAction { fee_multiplier_delta: 5, reward_dest: sc.at() });
        sc.block_end(a);
        out.push(sc);
    }
    {
        let mut sc = base("d_block_sigvariant", r, NetID::Custom02, 1000);
        sc.op_seal(None);
        let at = sc.at();
        let parent = match &sc.mode { Mode::S(s) => s.clone(), _ => unreachable!() };
        let saved = std::mem::replace(&mut sc.mode, Mode::U(parent.next_unsealed()));
        let m = sc.coin_of(Denom::Mel, 1 << 40).unwrap();
        let t = sc.mk(r, TxKind::Normal, &[m], vec![sc.cd(at, 1 << 30, Denom::Mel)], vec![]);
        sc.mode = saved;
        let a = Some(ProposerAction { fee_multiplier_delta: 1, reward_dest: at });
        // C07: the transactions root commits to whole transactions: the block of t and the block of its signature
        // variant, each sealed honestly on its own copy of the parent, have different transaction roots - in both orders
        {
            let mut t2 = t.clone(); t2.sigs.push(Bytes::from(vec![9u8, 9, 9]));
            let seal_of = |x: &Transaction| -> Option<Header> { let p = parent.clone(); let x = x.clone(); catch_unwind(AssertUnwindSafe(move || { let mut u = p.next_unsealed(); match u.apply_tx_batch(&[x]) { Ok(()) => Some(u.seal(a).header()), Err(_) => None } })).ok().flatten() };
            let (h1, h2, h1b) = (seal_of(&t), seal_of(&t2), seal_of(&t));
            if let (Some(h1), Some(h2), Some(h1b)) = (h1, h2, h1b) {
                if h1.transactions_hash == h2.transactions_hash { sc.viol("C07", "two blocks whose transactions differ (in their signatures) have the same transactions root".into()); }
                if h1.transactions_hash != h1b.transactions_hash { sc.viol("C07", "the same block sealed twice has two transactions roots".into()); }
            }
        }
        // the block holds two Transaction values with one hash_nosigs: which one a txhash-keyed collection keeps
        // depends on the HashSet's iteration order, so the attempt is repeated (a fresh HashSet each time)
        for _ in 0..6 {
            let c = sc.op_apply_block(&[t.clone()], a, 17, r);
            if c == 0 { sc.mode = Mode::S(parent.clone()); }
        }
        sc.op_apply_block(&[t.clone()], a, 16, r);
        sc.op_apply_block(&[t.clone()], a, 12, r);
        sc.op_apply_block(&[t], a, 0, r);
        out.push(sc);
    }
    // regression: covenant environments with repeated covenant hashes before an index-bound one; a block of
    // more than 256 transactions with in-block dependencies
    {
        let mut sc = base("d_idx_after_repeat", r, NetID::Custom02, 1000);
        let at = sc.at();
        let sn = sc.addr_of(|k| matches!(k, CovKind::SigNew(0)));
        let mut f = Transaction::new(TxKind::Faucet);
        f.outputs = vec![sc.cd(at, 1 << 40, Denom::Mel), sc.cd(at, 1 << 40, Denom::Mel), sc.cd(sn, 1 << 40, Denom::Mel), sc.cd(sn, 1 << 40, Denom::Mel)];
        let f = sc.finish_tx(r, f, &[], 0, 0);
        sc.op_batch(&[f.clone()]);
        sc.block_end(None);
        let coin = |i: u8| (CoinID::new(f.hash_nosigs(), i), CoinDataHeight { coin_data: f.outputs[i as usize].clone(), height: BlockHeight(0) });
        // inputs [A, A, B]: B's signature belongs in slot 2
        let good = sc.mk(r, TxKind::Normal, &[coin(0), coin(1), coin(2)], vec![sc.cd(at, 1 << 40, Denom::Mel)], vec![]);
        let mut bad = good.clone();
        if bad.sigs.len() == 3 { let s2 = bad.sigs[2].clone(); bad.sigs = vec![Bytes::new(), s2]; }
        sc.op_batch(&[bad]);
        sc.op_batch(&[good]);
        sc.block_end(None);
        out.push(sc);
    }
    {
        let mut sc = base("d_big_block", r, NetID::Custom02, 1);
        sc.op_seal(None);
        let at = sc.at();
        let parent = match &sc.mode { Mode::S(s) => s.clone(), _ => unreachable!() };
        let saved = std::mem::replace(&mut sc.mode, Mode::U(parent.next_unsealed()));
        let mut txs = vec![];
        for i in 0..135u32 {
            let mut f = Transaction::new(TxKind::Faucet);
            f.outputs = vec![sc.cd(at, 1 << 30, Denom::Mel)];
            f.data = Bytes::from(i.to_be_bytes().to_vec());
            let f = sc.finish_tx(r, f, &[], 0, 0);
            let c = (CoinID::new(f.hash_nosigs(), 0), CoinDataHeight { coin_data: f.outputs[0].clone(), height: BlockHeight(1) });
            let t = sc.mk(r, TxKind::Normal, &[c], vec![sc.cd(at, 1 << 20, Denom::Mel)], vec![]);
            txs.push(f); txs.push(t);
        }
        sc.mode = saved;
        sc.op_apply_block(&txs, None, 0, r);
        out.push(sc);
    }
    // regression: placeholder (empty) signatures under the TIP-908 commitment; a stake that lapses in the restart
    // epoch; a pool opened with one empty side and then swapped against
    {
        let mut sc = base("d_tip908_empty_sigs", r, NetID::Custom08, 1000);
        sc.block_end(None);
        let at = sc.at();
        let m = sc.coin_of(Denom::Mel, 1 << 40).unwrap();
        let mut t = sc.mk(r, TxKind::Normal, &[m], vec![sc.cd(at, 1 << 30, Denom::Mel)], vec![]);
        t.sigs = vec![Bytes::new(), Bytes::new()];
        sc.op_batch(&[t]);
        let a = Some(ProposerAction { fee_multiplier_delta: 0, reward_dest: at });
        sc.op_seal(a);
        sc.op_restart();
        out.push(sc);
    }
    {
        let mut sc = Scenario::new("d_lapsing_stake", r, NetID::Custom02, 1000, 1 << 20);
        sc.fixed_change = Some(sc.at());
        // rebuild the genesis with a stake whose end field is the current epoch
        let db = Database::new(InMemoryCas::default());
        let mut stakes = BTreeMap::new();
        stakes.insert(TxHash(tmelcrypt::hash_single(b"lapsing")), StakeDoc { pubkey: sc.keys.pk[0], e_start: 0, e_post_end: 0, syms_staked: CoinValue(7) });
        stakes.insert(TxHash(tmelcrypt::hash_single(b"staying")), StakeDoc { pubkey: sc.keys.pk[1], e_start: 0, e_post_end: 5, syms_staked: CoinValue(9) });
        let cfg = GenesisConfig { network: NetID::Custom02, init_coindata: CoinData { covhash: sc.at(), value: CoinValue(1 << 50), denom: Denom::Mel, additional_data: Bytes::new() }, stakes, init_fee_pool: CoinValue(1 << 20), init_fee_multiplier: 1000 };
        sc.mode = Mode::U(cfg.realize(&db));
        sc.db = db;
        let d = sc.dump_now(); sc.init = sc.dump_str(&d);
        let a = Some(ProposerAction { fee_multiplier_delta: 1, reward_dest: sc.at() });
        sc.op_seal(a);
        sc.op_restart();
        sc.op_confirm(&[(0, true), (1, true)]);
        sc.op_next();
        sc.op_seal(a);
        sc.op_restart();
        out.push(sc);
    }
    {
        let mut sc = base("d_onesided_pool", r, NetID::Custom02, 1000);
        let at = sc.at();
        let m = sc.coin_of(Denom::Mel, 1 << 40).unwrap();
        let t0 = sc.mk(r, TxKind::Normal, &[m], vec![sc.cd(at, 5000, Denom::NewCustom)], vec![]);
        let tok = Denom::Custom(t0.hash_nosigs());
        sc.op_batch(&[t0.clone()]);
        sc.block_end(None);
        let key = PoolKey::new(Denom::Mel, tok);
        sc.dict.pool(key);
        let m = sc.coin_of(Denom::Mel, 1 << 40).unwrap();
        let c = (CoinID::new(t0.hash_nosigs(), 0), CoinDataHeight { coin_data: sc.cd(at, 5000, tok), height: BlockHeight(0) });
        // left side positive, right side zero (whichever denomination is left)
        let (l, rr, rest) = if key.left() == Denom::Mel { (sc.cd(at, 1000, Denom::Mel), sc.cd(at, 0, tok), sc.cd(at, 5000, tok)) } else { (sc.cd(at, 1000, tok), sc.cd(at, 0, Denom::Mel), sc.cd(at, 4000, tok)) };
        let dep = sc.mk(r, TxKind::LiqDeposit, &[m, c], vec![l, rr, rest], key.to_bytes().to_vec());
        sc.op_batch(&[dep]);
        if sc.block_end(None) {
            // sell the left denomination into the one-sided pool
            let m = sc.coin_of(Denom::Mel, 1 << 40).unwrap();
            let mut ins = vec![m];
            let outv = if key.left() == Denom::Mel { sc.cd(at, 500, Denom::Mel) } else {
                let tc = sc.wallet().coins.into_iter().find(|(_, c)| c.coin_data.denom == tok && c.coin_data.value.0 >= 500).unwrap();
                ins.push(tc.clone()); sc.cd(at, tc.1.coin_data.value.0, tok) };
            let sw = sc.mk(r, TxKind::Swap, &ins, vec![outv], key.to_bytes().to_vec());
            sc.op_batch(&[sw]);
            sc.op_seal(None);
        }
        out.push(sc);
    }
    // a pool whose left side was deposited as zero records no liquidity and hands out a zero-valued token;
    // withdrawing that token must be a no-op
    {
        let mut sc = base("d_zero_liq_withdraw", r, NetID::Custom02, 1000);
        let at = sc.at();
        let m = sc.coin_of(Denom::Mel, 1 << 40).unwrap();
        let t0 = sc.mk(r, TxKind::Normal, &[m], vec![sc.cd(at, 5000, Denom::NewCustom)], vec![]);
        let tok = Denom::Custom(t0.hash_nosigs());
        sc.op_batch(&[t0.clone()]);
        sc.block_end(None);
        let key = PoolKey::new(Denom::Mel, tok);
        sc.dict.pool(key);
        let liq = key.liq_token_denom();
        let m = sc.coin_of(Denom::Mel, 1 << 40).unwrap();
        let c = (CoinID::new(t0.hash_nosigs(), 0), CoinDataHeight { coin_data: sc.cd(at, 5000, tok), height: BlockHeight(0) });
        // left side zero, right side positive (whichever denomination is left)
        let (l, rr, rest) = if key.left() == Denom::Mel { (sc.cd(at, 0, Denom::Mel), sc.cd(at, 5000, tok), None) } else { (sc.cd(at, 0, tok), sc.cd(at, 1000, Denom::Mel), Some(sc.cd(at, 5000, tok))) };
        let mut outs = vec![l, rr]; if let Some(x) = rest { outs.push(x); }
        let dep = sc.mk(r, TxKind::LiqDeposit, &[m, c], outs, key.to_bytes().to_vec());
        sc.op_batch(&[dep.clone()]);
        if sc.block_end(None) {
            let zero = (CoinID::new(dep.hash_nosigs(), 0), CoinDataHeight { coin_data: sc.cd(at, 0, liq), height: BlockHeight(1) });
            let m = sc.coin_of(Denom::Mel, 1 << 40).unwrap();
            let mut t = Transaction::new(TxKind::LiqWithdraw);
            t.outputs = vec![sc.cd(at, 0, liq)];
            t.data = key.to_bytes();
            let mut t = sc.finish_tx(r, t, &[m, zero], 0, 0);
            if t.outputs.len() > 1 { let ch = t.outputs.pop().unwrap(); t.fee = CoinValue(t.fee.0 + ch.value.0); }
            sc.op_batch(&[t]);
            sc.block_end(None);
        }
        out.push(sc);
    }
    // ERG minting with real proofs: a fast mint raises the recorded speed, the next mint is bounded by it
    {
        let mut sc = Scenario::new("d_doscmint", r, NetID::Custom02, 100, 1 << 20);
        sc.fixed_change = Some(sc.at());
        let db = Database::new(InMemoryCas::default());
        let cfg = GenesisConfig { network: NetID::Custom02, init_coindata: CoinData { covhash: sc.at(), value: CoinValue(1 << 50), denom: Denom::Mel, additional_data: Bytes::new() }, stakes: BTreeMap::new(), init_fee_pool: CoinValue(1 << 20), init_fee_multiplier: 100 };
        sc.mode = Mode::U(cfg.realize(&db));
        sc.db = db;
        let d = sc.dump_now(); sc.init = sc.dump_str(&d);
        let at = sc.at();
        let g = sc.coin_of(Denom::Mel, 1 << 40).unwrap();
        let split = sc.mk(r, TxKind::Normal, &[g], vec![sc.cd(at, 1 << 40, Denom::Mel), sc.cd(at, 1 << 40, Denom::Mel), sc.cd(at, 1 << 40, Denom::Mel), sc.cd(at, 1 << 40, Denom::Mel), sc.cd(at, 1 << 40, Denom::Mel), sc.cd(at, 1 << 40, Denom::Mel)], vec![]);
        sc.op_batch(&[split.clone()]);
        sc.block_end(None);
        let coin = |i: u8| (CoinID::new(split.hash_nosigs(), i), CoinDataHeight { coin_data: split.outputs[i as usize].clone(), height: BlockHeight(0) });
        let mint = |sc: &mut Scenario, r: &mut Rng, c: (CoinID, CoinDataHeight), difficulty: u32, ergs: u128, corrupt: bool| -> Transaction {
            let hist = melstf::SmtMapping::<InMemoryCas, BlockHeight, Header>::new(sc.ustate().verif_history());
            let seed = hist.get(&c.1.height).unwrap();
            let puzzle = tmelcrypt::hash_keyed(seed.hash(), &stdcode::serialize(&c.0).unwrap());
            let mut proof = melpow_proof(&puzzle, difficulty as usize);
            if corrupt { let n = proof.len(); proof[n / 2] ^= 1; }
            let at = sc.at();
            let mut t = Transaction::new(TxKind::DoscMint);
            t.outputs = vec![sc.cd(at, ergs, Denom::Erg)];
            t.data = Bytes::from(stdcode::serialize(&(difficulty, proof)).unwrap());
            sc.finish_tx(r, t, &[c], 0, 0)
        };
        // height 1: difficulty 20, age 1 -> speed 2^20 > 10^6; reward 381
        let t = mint(&mut sc, r, coin(0), 20, 382, false); sc.op_batch(&[t]);
        // two mints of one block: each reward is measured against the speed of the previous block's header (10^6), not
        // against the speed a faster mint of the same block has just raised: 2^38 / (2880 * 10^6) = 95.
        // Together in one batch (every order and one at a time must agree), then one more applied on its own.
        let t = mint(&mut sc, r, coin(3), 19, 96, false); sc.op_batch(&[t]);
        let ta = mint(&mut sc, r, coin(0), 20, 381, false);
        let tb = mint(&mut sc, r, coin(3), 19, 95, false);
        sc.op_batch(&[ta, tb]);
        let t = mint(&mut sc, r, coin(4), 19, 95, false); sc.op_batch(&[t]);
        // a proof with one flipped bit (MelPoW checks a sample of the proof: the oracle answers)
        let t = mint(&mut sc, r, coin(5), 19, 95, true); sc.op_batch(&[t]);
        sc.block_end(None);
        // height 2: difficulty 18, age 2, previous speed 2^20 -> reward 10
        let t = mint(&mut sc, r, coin(1), 18, 11, false); sc.op_batch(&[t]);
        let t = mint(&mut sc, r, coin(1), 18, 10, false); sc.op_batch(&[t]);
        // a proof for another coin's puzzle
        let mut t = mint(&mut sc, r, coin(2), 18, 1, false);
        let other = mint(&mut sc, r, coin(1), 18, 1, false);
        t.data = other.data.clone();
        let t = { let ins = vec![coin(2)]; let mut t2 = Transaction::new(TxKind::DoscMint); t2.outputs = t.outputs.clone(); t2.data = t.data.clone(); sc.finish_tx(r, t2, &ins, 0, 0) };
        sc.op_batch(&[t]);
        sc.block_end(None);
        out.push(sc);
    }
    // several requests of the same kind against two pools in one block, in whatever order the hashes give
    {
        let mut sc = base("d_two_pools_interleaved", r, NetID::Custom02, 1000);
        let at = sc.at();
        let mut want = vec![(1u128 << 45, Denom::Mel); 12];
        want.extend(vec![(1u128 << 42, Denom::Sym); 6]);
        want.extend(vec![(1u128 << 42, Denom::Erg); 6]);
        let f = sc.fund(r, &want);
        sc.op_batch(&[f.clone()]);
        sc.block_end(None);
        let fc = |i: u8| (CoinID::new(f.hash_nosigs(), i), CoinDataHeight { coin_data: f.outputs[i as usize].clone(), height: BlockHeight(0) });
        // requests of one kind against two pools interleave in txhash order (retry with another nonce otherwise)
        let interleaved = |txs: &[Transaction]| -> bool {
            let mut v: Vec<(HashVal, Vec<u8>)> = txs.iter().map(|t| (t.hash_nosigs().0, t.data.to_vec())).collect();
            v.sort();
            let mut keys: Vec<Vec<u8>> = v.into_iter().map(|(_, k)| k).collect();
            keys.dedup();
            let n = keys.len();
            keys.sort(); keys.dedup();
            keys.len() < n
        };
        let deposit = |sc: &mut Scenario, r: &mut Rng, mel: (CoinID, CoinDataHeight), oi: u8, d: Denom, nonce: u8| -> Transaction {
            let key = PoolKey::new(Denom::Mel, d);
            let (mut l, rr) = if key.left() == Denom::Mel { (sc.cd(at, 1 << 40, Denom::Mel), sc.cd(at, 1 << 40, d)) } else { (sc.cd(at, 1 << 40, d), sc.cd(at, 1 << 40, Denom::Mel)) };
            l.additional_data = Bytes::from(vec![nonce]);
            sc.mk(r, TxKind::LiqDeposit, &[mel, fc(oi)], vec![l, rr, sc.cd(at, (1 << 42) - (1 << 40), d)], key.to_bytes().to_vec())
        };
        // four deposits per pool (one pool per block), each much larger than the built-in liquidity nobody owns
        let deps: Vec<Transaction> = (0..4u8).map(|i| deposit(&mut sc, r, fc(i), 12 + i, Denom::Sym, 0)).collect();
        sc.op_batch(&deps);
        sc.block_end(None);
        let deps: Vec<Transaction> = (0..4u8).map(|i| deposit(&mut sc, r, fc(4 + i), 18 + i, Denom::Erg, 0)).collect();
        sc.op_batch(&deps);
        sc.block_end(None);
        // six swaps alternating between the two pools
        let mels: Vec<(CoinID, CoinDataHeight)> = sc.wallet().coins.into_iter().filter(|(_, c)| c.coin_data.denom == Denom::Mel && c.coin_data.covhash == at && c.coin_data.value.0 >= 1 << 40).collect();
        let mut swaps = vec![];
        for nonce in 0..32u8 {
            swaps.clear();
            for i in 0..6usize.min(mels.len()) {
                let d = if i % 2 == 0 { Denom::Sym } else { Denom::Erg };
                let mut o = sc.cd(at, 1000 + i as u128 * 77, Denom::Mel);
                o.additional_data = Bytes::from(vec![nonce]);
                let t = sc.mk(r, TxKind::Swap, &[mels[i].clone()], vec![o], PoolKey::new(Denom::Mel, d).to_bytes().to_vec());
                swaps.push(t);
            }
            if interleaved(&swaps) { break; }
        }
        sc.op_batch(&swaps);
        sc.block_end(None);
        // two of the four holders of each pool withdraw everything they hold
        let mut ws = vec![];
        let mels: Vec<(CoinID, CoinDataHeight)> = sc.wallet().coins.into_iter().filter(|(_, c)| c.coin_data.denom == Denom::Mel && c.coin_data.covhash == at && c.coin_data.value.0 >= 1 << 40).collect();
        for nonce in 0..32u8 {
            ws.clear();
            let mut mi = 0;
            for d in [Denom::Sym, Denom::Erg] {
                let key = PoolKey::new(Denom::Mel, d);
                let liq = key.liq_token_denom();
                let holders: Vec<(CoinID, CoinDataHeight)> = sc.wallet().coins.into_iter().filter(|(_, c)| c.coin_data.denom == liq && c.coin_data.value.0 > 4).collect();
                for h in holders.into_iter().take(2) {
                    if mi >= mels.len() { break; }
                    let mut t = Transaction::new(TxKind::LiqWithdraw);
                    let mut o = sc.cd(at, h.1.coin_data.value.0, liq);
                    o.additional_data = Bytes::from(vec![nonce]);
                    t.outputs = vec![o];
                    t.data = key.to_bytes();
                    let mut t = sc.finish_tx(r, t, &[mels[mi].clone(), h.clone()], 0, 0);
                    mi += 1;
                    if t.outputs.len() > 1 { let ch = t.outputs.pop().unwrap(); t.fee = CoinValue(t.fee.0 + ch.value.0); }
                    ws.push(t);
                }
            }
            if interleaved(&ws) { break; }
        }
        sc.op_batch(&ws);
        sc.block_end(None);
        // two more deposits per pool in one block
        let mut deps = vec![];
        let mels: Vec<(CoinID, CoinDataHeight)> = sc.wallet().coins.into_iter().filter(|(_, c)| c.coin_data.denom == Denom::Mel && c.coin_data.covhash == at && c.coin_data.value.0 >= 1 << 41).collect();
        for nonce in 0..32u8 {
            deps.clear();
            for i in 0..4u8.min(mels.len() as u8) {
                let d = if i % 2 == 0 { Denom::Sym } else { Denom::Erg };
                deps.push(deposit(&mut sc, r, mels[i as usize].clone(), if i % 2 == 0 { 16 + i / 2 } else { 22 + i / 2 }, d, nonce));
            }
            if interleaved(&deps) { break; }
        }
        if interleaved(&deps) && interleaved(&swaps) && interleaved(&ws) { sc.bump("two_pools_all_interleaved"); }
        sc.op_batch(&deps);
        sc.block_end(None);
        out.push(sc);
    }
    // a withdrawal request with a second output locked by another covenant is not a request: nothing is settled
    {
        let mut sc = base("d_withdraw_two_outputs", r, NetID::Custom02, 1000);
        let at = sc.at();
        sc.block_end(None);
        let key = PoolKey::new(Denom::Mel, Denom::Sym);
        let liq = key.liq_token_denom();
        let m = sc.coin_of(Denom::Mel, 1 << 40).unwrap();
        let sy = sc.coin_of(Denom::Sym, 1 << 30).unwrap();
        let dep = sc.mk(r, TxKind::LiqDeposit, &[m, sy.clone()], vec![sc.cd(at, 1 << 30, Denom::Mel), sc.cd(at, 1 << 30, Denom::Sym), sc.cd(at, sy.1.coin_data.value.0 - (1 << 30), Denom::Sym)], key.to_bytes().to_vec());
        sc.op_batch(&[dep]);
        sc.block_end(None);
        let other = sc.addr_of(|k| matches!(k, CovKind::SigNew(0)));
        if let Some(h) = sc.wallet().coins.into_iter().find(|(_, c)| c.coin_data.denom == liq && c.coin_data.value.0 > 10) {
            let m = sc.coin_of(Denom::Mel, 1 << 40).unwrap();
            let mut t = Transaction::new(TxKind::LiqWithdraw);
            t.outputs = vec![sc.cd(at, h.1.coin_data.value.0, liq)];
            t.data = key.to_bytes();
            sc.fixed_change = Some(other);          // the MEL change stays as output 1, under another covenant
            let t = sc.finish_tx(r, t, &[m, h], 0, 0);
            sc.fixed_change = Some(at);
            sc.bump(if t.outputs.len() == 2 { "withdraw_with_two_outputs" } else { "withdraw_with_one_output" });
            sc.op_batch(&[t]);
            sc.block_end(None);
        }
        out.push(sc);
    }
    // a staked output as the SECOND input carrying a covenant that an earlier, unlocked input already carries
    {
        let mut sc = base("d_staked_second_input", r, NetID::Custom02, 1000);
        let at = sc.at();
        sc.block_end(None);
        let m = sc.coin_of(Denom::Mel, 1 << 40).unwrap();
        let sy = sc.coin_of(Denom::Sym, 1 << 30).unwrap();
        let epoch = sc.ustate().verif_height().0 / STAKE_EPOCH;
        let doc = StakeDoc { pubkey: sc.keys.pk[0], e_start: epoch + 1, e_post_end: epoch + 3, syms_staked: CoinValue(1 << 20) };
        let mut st = Transaction::new(TxKind::Stake);
        st.outputs = vec![sc.cd(at, 1 << 20, Denom::Sym), sc.cd(at, sy.1.coin_data.value.0 - (1 << 20), Denom::Sym)];
        st.data = Bytes::from(doc.stdcode());
        let st = sc.finish_tx(r, st, &[m, sy], 0, 0);
        sc.op_batch(&[st.clone()]);
        sc.block_end(None);
        let staked = (CoinID::new(st.hash_nosigs(), 0), CoinDataHeight { coin_data: st.outputs[0].clone(), height: BlockHeight(1) });
        let free = sc.coin_of(Denom::Mel, 1 << 40).unwrap();
        // unlocked coin first, staked coin second (same covenant), and the other way round
        let t1 = sc.mk(r, TxKind::Normal, &[free.clone(), staked.clone()], vec![sc.cd(at, 1 << 20, Denom::Sym), sc.cd(at, 1 << 30, Denom::Mel)], vec![]);
        sc.op_batch(&[t1]);
        let t2 = sc.mk(r, TxKind::Normal, &[staked, free], vec![sc.cd(at, 1 << 20, Denom::Sym), sc.cd(at, 1 << 30, Denom::Mel)], vec![]);
        sc.op_batch(&[t2]);
        sc.block_end(None);
        out.push(sc);
    }
    // tips that add up to more than the largest coin value, sealed with an action, then a restart
    {
        let mut sc = base("d_huge_tips", r, NetID::Custom02, 1000);
        let at = sc.at();
        sc.block_end(None);
        let mut fs = vec![];
        for i in 0..2u8 {
            let mut f = Transaction::new(TxKind::Faucet);
            f.outputs = vec![sc.cd(at, 1000 + i as u128, Denom::Mel)];
            let mut f = sc.finish_tx(r, f, &[], 0, 0);
            f.fee = CoinValue((1u128 << 120) - 7 - i as u128);
            fs.push(f);
        }
        sc.op_batch(&fs);
        let a = act(&sc, 3);
        if sc.op_seal(a) == 0 {
            sc.op_restart();
            sc.op_next();
            let m = sc.coin_of(Denom::Mel, 1 << 40).unwrap();
            let t = sc.mk(r, TxKind::Normal, &[m], vec![sc.cd(at, 1 << 30, Denom::Mel)], vec![]);
            sc.op_batch(&[t]);
            let a = act(&sc, -3);
            if sc.op_seal(a) == 0 { sc.op_restart(); sc.op_next(); }
        }
        out.push(sc);
    }
    // a proposer reward of zero (empty fee pool, no tips, subsidy not active yet): the block still commits to
    // the reward destination
    {
        let mut sc = Scenario::new("d_zero_reward", r, NetID::Testnet, 1000, 0);
        sc.fixed_change = Some(sc.at());
        let at = sc.at();
        let a = Some(ProposerAction { fee_multiplier_delta: 2, reward_dest: at });
        sc.op_seal(None);
        sc.op_apply_block(&[], a, 15, r);
        sc.op_apply_block(&[], a, 14, r);
        sc.op_apply_block(&[], a, 13, r);
        sc.op_apply_block(&[], a, 0, r);
        out.push(sc);
    }
    // histories that cross a TIP activation height (every scenario above starts at height 0, far from them)
    for (name, net, h) in [("d_tip_testnet_500", NetID::Testnet, 498u64), ("d_tip901_mainnet", NetID::Mainnet, 42698), ("d_tip902_mainnet", NetID::Mainnet, 179998),
                           ("d_tip906_mainnet", NetID::Mainnet, 829995), ("d_tip909_mainnet", NetID::Mainnet, 949998), ("d_tip909a_mainnet", NetID::Mainnet, 1047998)] {
        let mut sc = Scenario::new(name, r, net, 100, 1 << 30);
        sc.fixed_change = Some(sc.at());
        sc.jump_to_height(h);
        for b in 0..(if h == 829995 { 7 } else { 4 }) {
            sc.op_next();
            let w = sc.wallet();
            if let Some(t) = sc.gen_normal(r, &w, &HashSet::new()) { sc.op_batch(&[t]); }
            let d = [-128i8, -128, 127, -64, 1, 2, 3][b];
            let a = Some(ProposerAction { fee_multiplier_delta: d, reward_dest: sc.at() });
            if sc.op_seal(a) != 0 { break; }
            if b == 2 { sc.op_restart(); }
        }
        out.push(sc);
    }
    // the TIP-906 activation on the testnet with several coins under one covenant hash (the counts are initialised from the coin set)
    {
        let mut sc = Scenario::new("d_counts_activation_testnet", r, NetID::Testnet, 100, 1 << 30);
        sc.fixed_change = Some(sc.at());
        sc.jump_to_height(497);
        sc.op_next();
        let f = sc.fund(r, &[(1 << 40, Denom::Mel), (1 << 40, Denom::Mel), (1 << 40, Denom::Mel), (1 << 30, Denom::Sym), (1 << 30, Denom::Sym)]);
        sc.op_batch(&[f]);
        for b in 0..4 {
            let a = Some(ProposerAction { fee_multiplier_delta: 0, reward_dest: sc.at() });
            if sc.op_seal(a) != 0 { break; }
            if b == 1 { sc.op_restart(); }
            sc.op_next();
            let w = sc.wallet();
            if let Some(t) = sc.gen_normal(r, &w, &HashSet::new()) { sc.op_batch(&[t]); }
        }
        sc.op_seal(None);
        out.push(sc);
    }
    // the end of the legacy deposit rule (heights below 978392 on Mainnet / Testnet keep the second deposit output)
    {
        let mut sc = Scenario::new("d_legacy_deposit_boundary", r, NetID::Testnet, 100, 1 << 30);
        sc.fixed_change = Some(sc.at());
        sc.jump_to_height(978_389);
        sc.op_next();
        let f = sc.fund(r, &[(1 << 50, Denom::Mel), (1 << 50, Denom::Mel), (1 << 50, Denom::Mel), (1 << 50, Denom::Mel), (1 << 40, Denom::Sym), (1 << 40, Denom::Sym), (1 << 40, Denom::Sym), (1 << 40, Denom::Sym)]);
        sc.op_batch(&[f]);
        let at = sc.at();
        for _b in 0..4 {
            if !sc.block_end(None) { break; }
            let m = sc.coin_of(Denom::Mel, 1 << 40);
            let sy = sc.coin_of(Denom::Sym, 1 << 30);
            if let (Some(m), Some(sy)) = (m, sy) {
                let t = sc.mk(r, TxKind::LiqDeposit, &[m, sy.clone()], vec![sc.cd(at, 1 << 20, Denom::Mel), sc.cd(at, 1 << 20, Denom::Sym), sc.cd(at, sy.1.coin_data.value.0 - (1 << 20), Denom::Sym)], b"s".to_vec());
                sc.op_batch(&[t]);
            }
        }
        sc.op_seal(None);
        out.push(sc);
    }
    // the legacy staking rules: registration starts at height 500000, the lock at height 900000 (Mainnet / Testnet)
    for (name, h0) in [("d_legacy_stake_500000", 499_997u64), ("d_legacy_stake_900000", 899_996u64)] {
        let mut sc = Scenario::new(name, r, NetID::Testnet, 100, 1 << 30);
        sc.fixed_change = Some(sc.at());
        sc.jump_to_height(h0);
        sc.op_next();
        let f = sc.fund(r, &[(1 << 50, Denom::Mel), (1 << 50, Denom::Mel), (1 << 50, Denom::Mel), (1 << 50, Denom::Mel), (1 << 40, Denom::Sym), (1 << 40, Denom::Sym), (1 << 40, Denom::Sym), (1 << 40, Denom::Sym)]);
        sc.op_batch(&[f]);
        let at = sc.at();
        let mut staked: Vec<(CoinID, CoinDataHeight)> = vec![];
        for _b in 0..5 {
            if !sc.block_end(None) { break; }
            let height = sc.ustate().verif_height();
            // spend the output staked in the previous block, then stake again
            if let Some(st) = staked.pop() {
                if let Some(m) = sc.coin_of(Denom::Mel, 1 << 40) {
                    let t = sc.mk(r, TxKind::Normal, &[m, st], vec![sc.cd(at, 1 << 20, Denom::Sym), sc.cd(at, 1 << 30, Denom::Mel)], vec![]);
                    sc.op_batch(&[t]);
                }
            }
            let m = sc.coin_of(Denom::Mel, 1 << 40);
            let sy = sc.coin_of(Denom::Sym, 1 << 30);
            if let (Some(m), Some(sy)) = (m, sy) {
                let epoch = height.0 / STAKE_EPOCH;
                let doc = StakeDoc { pubkey: sc.keys.pk[0], e_start: epoch + 1, e_post_end: epoch + 3, syms_staked: CoinValue(1 << 20) };
                let mut st = Transaction::new(TxKind::Stake);
                st.outputs = vec![sc.cd(at, 1 << 20, Denom::Sym), sc.cd(at, sy.1.coin_data.value.0 - (1 << 20), Denom::Sym)];
                st.data = Bytes::from(doc.stdcode());
                let st = sc.finish_tx(r, st, &[m, sy], 0, 0);
                if sc.op_batch(&[st.clone()]) == 0 {
                    staked.push((CoinID::new(st.hash_nosigs(), 0), CoinDataHeight { coin_data: st.outputs[0].clone(), height }));
                }
            }
        }
        sc.op_seal(None);
        out.push(sc);
    }
    // a consensus proof with one bad signature, at every position of the key order, and one from a key without stake
    {
        let mut sc = Scenario::new("d_confirm_bad_signature_positions", r, NetID::Custom02, 1000, 1 << 20);
        sc.fixed_change = Some(sc.at());
        let db = Database::new(InMemoryCas::default());
        let mut stakes = BTreeMap::new();
        let nk = sc.keys.pk.len();
        // in the order of the keys (the order in which a ConsensusProof is walked): 10, 10, 1 - the first two alone are a quorum
        let mut order: Vec<usize> = (0..nk.min(4)).collect();
        order.sort_by_key(|i| sc.keys.pk[*i].0);
        for (pos, i) in order.iter().enumerate() { stakes.insert(TxHash(tmelcrypt::hash_single(&[b'q', *i as u8])), StakeDoc { pubkey: sc.keys.pk[*i], e_start: 0, e_post_end: 5, syms_staked: CoinValue(if pos + 1 == order.len() { 1 } else { 10 }) }); }
        let cfg = GenesisConfig { network: NetID::Custom02, init_coindata: CoinData { covhash: sc.at(), value: CoinValue(1 << 50), denom: Denom::Mel, additional_data: Bytes::new() }, stakes, init_fee_pool: CoinValue(1 << 20), init_fee_multiplier: 1000 };
        sc.mode = Mode::U(cfg.realize(&db));
        sc.db = db;
        let d = sc.dump_now(); sc.init = sc.dump_str(&d);
        sc.op_seal(None);
        let n = nk.min(4);
        let all: Vec<(usize, bool)> = (0..n).map(|i| (i, true)).collect();
        sc.op_confirm(&all);
        for bad in 0..n { let v: Vec<(usize, bool)> = (0..n).map(|i| (i, i != bad)).collect(); sc.op_confirm(&v); }
        for skip in 0..n { let v: Vec<(usize, bool)> = (0..n).filter(|i| *i != skip).map(|i| (i, true)).collect(); sc.op_confirm(&v); }
        for skip in 0..n { for bad in 0..n { if bad != skip { let v: Vec<(usize, bool)> = (0..n).filter(|i| *i != skip).map(|i| (i, i != bad)).collect(); sc.op_confirm(&v); } } }
        out.push(sc);
    }
    // a withdrawal request whose output is spent by another transaction of the same block is not a request
    {
        let mut sc = base("d_withdraw_spent_output", r, NetID::Custom02, 1000);
        let at = sc.at();
        sc.block_end(None);
        let key = PoolKey::new(Denom::Mel, Denom::Sym);
        let liq = key.liq_token_denom();
        let m = sc.coin_of(Denom::Mel, 1 << 40).unwrap();
        let sy = sc.coin_of(Denom::Sym, 1 << 30).unwrap();
        let dep = sc.mk(r, TxKind::LiqDeposit, &[m, sy.clone()], vec![sc.cd(at, 1 << 30, Denom::Mel), sc.cd(at, 1 << 30, Denom::Sym), sc.cd(at, sy.1.coin_data.value.0 - (1 << 30), Denom::Sym)], key.to_bytes().to_vec());
        sc.op_batch(&[dep]);
        sc.block_end(None);
        if let Some(h) = sc.wallet().coins.into_iter().find(|(_, c)| c.coin_data.denom == liq && c.coin_data.value.0 > 10) {
            let m = sc.coin_of(Denom::Mel, 1 << 40).unwrap();
            let mut t = Transaction::new(TxKind::LiqWithdraw);
            t.outputs = vec![sc.cd(at, h.1.coin_data.value.0, liq)];
            t.data = key.to_bytes();
            let mut w = sc.finish_tx(r, t, &[m, h.clone()], 0, 0);
            if w.outputs.len() > 1 { let ch = w.outputs.pop().unwrap(); w.fee = CoinValue(w.fee.0 + ch.value.0); }
            // re-sign is not needed: every input is under the always-true covenant
            sc.op_batch(&[w.clone()]);
            let height = sc.ustate().verif_height();
            let wc = (CoinID::new(w.hash_nosigs(), 0), CoinDataHeight { coin_data: w.outputs[0].clone(), height });
            let m2 = sc.wallet().coins.into_iter().filter(|(id, c)| c.coin_data.denom == Denom::Mel && c.coin_data.covhash == at && c.coin_data.value.0 >= 1 << 40 && !w.inputs.contains(id)).next();
            if let Some(m2) = m2 {
                let sp = sc.mk(r, TxKind::Normal, &[m2, wc], vec![sc.cd(at, h.1.coin_data.value.0, liq), sc.cd(at, 1 << 30, Denom::Mel)], vec![]);
                sc.op_batch(&[sp]);
            }
            sc.block_end(None);
            sc.block_end(None);
        }
        out.push(sc);
    }
    // two withdrawals that each fit the pool's recorded liquidity but not together (tokens from a faucet)
    {
        let mut sc = base("d_withdraw_sum_exceeds", r, NetID::Custom02, 1000);
        let at = sc.at();
        sc.block_end(None);
        let key = PoolKey::new(Denom::Mel, Denom::Sym);
        sc.dict.pool(key);
        let liq = key.liq_token_denom();
        let f = sc.fund(r, &[(600_000_000, liq), (600_000_000, liq)]);
        sc.op_batch(&[f.clone()]);
        sc.block_end(None);
        let mut used: Vec<CoinID> = vec![];
        for i in 0..2u8 {
            let h = (CoinID::new(f.hash_nosigs(), i), CoinDataHeight { coin_data: f.outputs[i as usize].clone(), height: BlockHeight(1) });
            let m = sc.wallet().coins.into_iter().filter(|(id, c)| c.coin_data.denom == Denom::Mel && c.coin_data.covhash == at && c.coin_data.value.0 >= 1 << 40 && !used.contains(id)).next();
            if let Some(m) = m {
                used.push(m.0);
                let mut t = Transaction::new(TxKind::LiqWithdraw);
                t.outputs = vec![sc.cd(at, 600_000_000, liq)];
                t.data = key.to_bytes();
                let mut w = sc.finish_tx(r, t, &[m, h], 0, 0);
                if w.outputs.len() > 1 { let ch = w.outputs.pop().unwrap(); w.fee = CoinValue(w.fee.0 + ch.value.0); }
                sc.op_batch(&[w]);
            }
        }
        sc.block_end(None);
        sc.block_end(None);
        out.push(sc);
    }
    // two mints of one batch that both beat the recorded speed: the fastest one sets it, in every order and on every pool
    {
        let mut sc = Scenario::new("d_doscmint_two_fast", r, NetID::Custom02, 100, 1 << 20);
        sc.fixed_change = Some(sc.at());
        let db = Database::new(InMemoryCas::default());
        let cfg = GenesisConfig { network: NetID::Custom02, init_coindata: CoinData { covhash: sc.at(), value: CoinValue(1 << 50), denom: Denom::Mel, additional_data: Bytes::new() }, stakes: BTreeMap::new(), init_fee_pool: CoinValue(1 << 20), init_fee_multiplier: 100 };
        sc.mode = Mode::U(cfg.realize(&db));
        sc.db = db;
        let d = sc.dump_now(); sc.init = sc.dump_str(&d);
        let at = sc.at();
        let g = sc.coin_of(Denom::Mel, 1 << 40).unwrap();
        let split = sc.mk(r, TxKind::Normal, &[g], vec![sc.cd(at, 1 << 40, Denom::Mel), sc.cd(at, 1 << 40, Denom::Mel), sc.cd(at, 1 << 40, Denom::Mel)], vec![]);
        sc.op_batch(&[split.clone()]);
        sc.block_end(None);
        let mut ms = vec![];
        for (i, difficulty) in [(0u8, 21u32), (1, 20), (2, 20)] {
            let c = (CoinID::new(split.hash_nosigs(), i), CoinDataHeight { coin_data: split.outputs[i as usize].clone(), height: BlockHeight(0) });
            let hist = melstf::SmtMapping::<InMemoryCas, BlockHeight, Header>::new(sc.ustate().verif_history());
            let seed = hist.get(&c.1.height).unwrap();
            let puzzle = tmelcrypt::hash_keyed(seed.hash(), &stdcode::serialize(&c.0).unwrap());
            let proof = melpow_proof(&puzzle, difficulty as usize);
            let mut t = Transaction::new(TxKind::DoscMint);
            t.outputs = vec![sc.cd(at, 1, Denom::Erg)];
            t.data = Bytes::from(stdcode::serialize(&(difficulty, proof)).unwrap());
            ms.push(sc.finish_tx(r, t, &[c], 0, 0));
        }
        let before = sc.ustate().verif_dosc_speed();
        if sc.op_batch(&ms) == 0 {
            let after = sc.ustate().verif_dosc_speed();
            if after != (1u128 << 21) || before >= (1 << 20) { sc.viol("C18", format!("after mints of speed 2^21, 2^20, 2^20 on a recorded speed of {} the recorded speed is {}", before, after)); }
        }
        sc.block_end(None);
        out.push(sc);
    }
    // the minimum fee is every transaction's own: one that pays a unit too little is not carried by a generous neighbour
    {
        let mut sc = base("d_fee_not_pooled", r, NetID::Custom02, 70000);
        let at = sc.at();
        sc.fixed_change = Some(at);
        let f = sc.fund(r, &[(1 << 40, Denom::Mel), (1 << 40, Denom::Mel), (1 << 40, Denom::Mel), (1 << 40, Denom::Mel)]);
        sc.op_batch(&[f.clone()]);
        sc.block_end(None);
        let fc = |i: u8| (CoinID::new(f.hash_nosigs(), i), CoinDataHeight { coin_data: f.outputs[i as usize].clone(), height: BlockHeight(0) });
        let pay = |sc: &mut Scenario, r: &mut Rng, i: u8, adj: i128, tip: u128| { let mut t = Transaction::new(TxKind::Normal); t.outputs = vec![sc.cd(at, 1 << 30, Denom::Mel)]; t.data = Bytes::from(vec![i]); sc.finish_tx(r, t, &[fc(i)], adj, tip) };
        // the wallet's fee estimate assumes a signature per input; these spends carry none, so the fee is set here
        // relative to the transaction's real minimum (the change output absorbs the difference)
        let mult = sc.ustate().verif_fee_multiplier();
        let refee = |mut t: Transaction, delta: i128| -> Transaction {
            for _ in 0..8 {
                let min = t.base_fee(mult, 0, melvm::covenant_weight_from_bytes).0;
                let want = (min as i128 + delta).max(0) as u128;
                if want == t.fee.0 { break; }
                let ci = t.outputs.len() - 1;
                let total = t.outputs[ci].value.0 + t.fee.0;
                t.fee = CoinValue(want);
                t.outputs[ci].value = CoinValue(total - want);
            }
            t
        };
        let under = refee(pay(&mut sc, r, 0, 0, 0), -1);
        let over = refee(pay(&mut sc, r, 1, 0, 0), 5000);
        let exact = refee(pay(&mut sc, r, 2, 0, 0), 0);
        if under.fee.0 + 1 != under.base_fee(mult, 0, melvm::covenant_weight_from_bytes).0 || exact.fee.0 != exact.base_fee(mult, 0, melvm::covenant_weight_from_bytes).0 { sc.bump("d_fee_not_pooled_setup_failed"); }
        let ok_setup = under.fee.0 + 1 == under.base_fee(mult, 0, melvm::covenant_weight_from_bytes).0;
        for b in [vec![under.clone(), over.clone()], vec![over.clone(), under.clone()], vec![exact.clone(), over.clone(), under.clone()]] {
            if sc.op_batch(&b) == 0 && ok_setup { sc.viol("C05", "a batch holding a transaction that pays one unit less than its minimum fee was accepted because another member overpays".into()); break; }
        }
        sc.op_batch(&[over, exact]);
        let a = Some(ProposerAction { fee_multiplier_delta: 0, reward_dest: at });
        sc.block_end(a);
        out.push(sc);
    }
    // groups of equal withdrawals from one pool in one block: the shares are rounded down, whatever the remainder of the
    // pool's payout modulo the number of requests; and a built-in pool that its only depositor leaves keeps its reserves
    {
        let mut sc = base("d_withdrawal_shares_rounding", r, NetID::Custom02, 1000);
        let at = sc.at();
        sc.fixed_change = Some(at);
        sc.block_end(None);
        let mut want = vec![(1u128 << 44, Denom::Mel); 2];
        want.extend(vec![(1u128 << 24, Denom::Mel); 20]);
        want.push((3_000_000_007, Denom::Erg));
        let f = sc.fund(r, &want);
        sc.op_batch(&[f.clone()]);
        sc.block_end(None);
        let fc = |i: u8| (CoinID::new(f.hash_nosigs(), i), CoinDataHeight { coin_data: f.outputs[i as usize].clone(), height: BlockHeight(1) });
        let key = PoolKey::new(Denom::Mel, Denom::Erg);
        let liq = key.liq_token_denom();
        let (l, rr) = if key.left() == Denom::Mel { (sc.cd(at, 2_999_999_999, Denom::Mel), sc.cd(at, 3_000_000_007, Denom::Erg)) } else { (sc.cd(at, 3_000_000_007, Denom::Erg), sc.cd(at, 2_999_999_999, Denom::Mel)) };
        let dep = sc.mk(r, TxKind::LiqDeposit, &[fc(0), fc(22)], vec![l, rr], key.to_bytes().to_vec());
        sc.op_batch(&[dep.clone()]);
        sc.block_end(None);
        // split the liquidity tokens into groups of three equal coins
        let mine: Vec<(CoinID, CoinDataHeight)> = sc.wallet().coins.into_iter().filter(|(_, c)| c.coin_data.denom == liq).collect();
        if let Some(lc) = mine.into_iter().max_by_key(|(_, c)| c.coin_data.value.0) {
            let amounts = [1000u128, 1001, 777, 12345, 99_999, 1_000_003];
            let mut outs = vec![];
            for a in amounts { for _ in 0..3 { outs.push(sc.cd(at, a, liq)); } }
            let used: u128 = amounts.iter().map(|a| a * 3).sum();
            outs.push(sc.cd(at, lc.1.coin_data.value.0 - used, liq));
            let sp = sc.mk(r, TxKind::Normal, &[fc(1), lc.clone()], outs, vec![]);
            sc.op_batch(&[sp.clone()]);
            sc.block_end(None);
            let h = sc.ustate().verif_height().0 - 1;
            let lcoin = |i: usize| (CoinID::new(sp.hash_nosigs(), i as u8), CoinDataHeight { coin_data: sp.outputs[i].clone(), height: BlockHeight(h) });
            for g in 0..amounts.len() {
                // a withdrawal request has exactly one output: the MEL that pays the fee is spent whole
                let ws: Vec<Transaction> = (0..3).map(|j| { let i = g * 3 + j; let mut t = sc.mk(r, TxKind::LiqWithdraw, &[fc(2 + i as u8), lcoin(i)], vec![sc.cd(at, amounts[g], liq)], key.to_bytes().to_vec());
                    if t.outputs.len() > 1 { let ch = t.outputs.pop().unwrap(); t.fee = CoinValue(t.fee.0 + ch.value.0); } t }).collect();
                sc.op_batch(&ws);
                sc.block_end(None);
            }
            // ... and the depositor leaves with everything that is left of his tokens
            let rest = lcoin(amounts.len() * 3);
            let mut w = sc.mk(r, TxKind::LiqWithdraw, &[fc(2 + 18), rest.clone()], vec![sc.cd(at, rest.1.coin_data.value.0, liq)], key.to_bytes().to_vec());
            if w.outputs.len() > 1 { let ch = w.outputs.pop().unwrap(); w.fee = CoinValue(w.fee.0 + ch.value.0); }
            sc.op_batch(&[w]);
            sc.block_end(None);
            sc.block_end(None);
        }
        out.push(sc);
    }
    // a covenant that reads the last header (a time lock: last_header.height >= 2) is given the header of the
    // previous block - not of the block being built: the spend is tried in every block around the boundary
    {
        let mut sc = base("d_height_lock_boundary", r, NetID::Custom02, 1000);
        let at = sc.at();
        sc.fixed_change = Some(at);
        let lock = sc.addr_of(|k| matches!(k, CovKind::HeightLock(2)));
        let mut f = Transaction::new(TxKind::Faucet);
        f.outputs = (0..7).map(|_| sc.cd(lock, 1 << 40, Denom::Mel)).collect();
        let f = sc.finish_tx(r, f, &[], 0, 0);
        sc.op_batch(&[f.clone()]);
        let fc = |i: u8| (CoinID::new(f.hash_nosigs(), i), CoinDataHeight { coin_data: f.outputs[i as usize].clone(), height: BlockHeight(0) });
        for i in 0..6u8 {
            let h = sc.ustate().verif_height().0;
            let t = sc.mk(r, TxKind::Normal, &[fc(i)], vec![sc.cd(at, 1 << 30, Denom::Mel)], vec![i]);
            let code = sc.op_batch(&[t]);
            // the last header of a block at height h is the header of height h - 1 (at height 0: of the state itself)
            let allowed = h.saturating_sub(1) >= 2;
            if code == 0 && !allowed { sc.viol("C04", format!("a coin locked until the last header's height is 2 was spent in block {}: its covenant was evaluated against another header than the previous block's", h)); }
            if code != 0 && allowed { sc.viol("C04", format!("a coin locked until the last header's height is 2 could not be spent in block {} ({})", h, code)); }
            sc.block_end(if i % 2 == 0 { None } else { Some(ProposerAction { fee_multiplier_delta: 0, reward_dest: at }) });
        }
        out.push(sc);
    }
    // a rejected batch, a discarded working copy and another fork leave no trace: a transaction whose signed twin
    // was validated there is still rejected when it comes without its signature (and the signed one still accepted)
    {
        let mut sc = base("d_rejected_batch_leaves_no_trace", r, NetID::Custom02, 1000);
        let signed = sc.addr_of(|k| matches!(k, CovKind::SigNew(0)));
        let at = sc.at();
        sc.fixed_change = Some(at);
        let mut f = Transaction::new(TxKind::Faucet);
        f.outputs = vec![sc.cd(signed, 1 << 40, Denom::Mel), sc.cd(signed, 1 << 40, Denom::Mel), sc.cd(signed, 1 << 40, Denom::Mel)];
        let f = sc.finish_tx(r, f, &[], 0, 0);
        sc.op_batch(&[f.clone()]);
        sc.block_end(None);
        let fc = |i: u8| (CoinID::new(f.hash_nosigs(), i), CoinDataHeight { coin_data: f.outputs[i as usize].clone(), height: BlockHeight(0) });
        let strip = |t: &Transaction| { let mut u = t.clone(); u.sigs = vec![]; u };
        let garble = |t: &Transaction| { let mut u = t.clone(); for sg in u.sigs.iter_mut() { let mut v = sg.to_vec(); if !v.is_empty() { v[7] ^= 0x20; } *sg = Bytes::from(v); } u };
        // (a) the signed transaction is validated inside a batch that is rejected for another member
        let t0 = sc.mk(r, TxKind::Normal, &[fc(0)], vec![sc.cd(at, 1 << 30, Denom::Mel)], b"a".to_vec());
        let mut bad = sc.mk(r, TxKind::Normal, &[fc(1)], vec![sc.cd(at, 1 << 30, Denom::Mel)], b"b".to_vec());
        bad.fee = CoinValue(0);
        sc.op_batch(&[t0.clone(), bad]);
        for (what, u) in [("without its signatures", strip(&t0)), ("with corrupted signatures", garble(&t0))] {
            if sc.op_batch(&[u]) == 0 {
                for p in ["C02", "C04"] { sc.viol(p, format!("a transaction {} was accepted after its signed twin had been validated in a batch that was rejected: the rejected batch left a trace", what)); }
            }
        }
        // (b) ... on a working copy that is thrown away (a mempool check) and on a sibling fork
        let t1 = sc.mk(r, TxKind::Normal, &[fc(1)], vec![sc.cd(at, 1 << 30, Denom::Mel)], b"c".to_vec());
        { let mut copy = sc.ustate().clone(); let _ = catch_unwind(AssertUnwindSafe(|| copy.apply_tx_batch(&[t1.clone()]))); }
        if sc.op_batch(&[strip(&t1)]) == 0 {
            for p in ["C02", "C04"] { sc.viol(p, "a transaction without its signatures was accepted after its signed twin had been applied to a discarded copy of the state".into()); }
        }
        if sc.op_batch(&[t0.clone()]) != 0 { sc.viol("C02", "the signed transaction is refused after the rejected batch".into()); }
        sc.block_end(None);
        // (c) ... in an earlier block's rejected batch, then after a restart
        let t2 = sc.mk(r, TxKind::Normal, &[fc(2)], vec![sc.cd(at, 1 << 30, Denom::Mel)], b"d".to_vec());
        let mut bad2 = t2.clone(); bad2.data = Bytes::from(b"e".to_vec()); bad2.inputs.push(fc(0).0);
        sc.op_batch(&[t2.clone(), bad2]);
        sc.op_seal(None); sc.op_restart(); sc.op_next();
        if sc.op_batch(&[strip(&t2)]) == 0 {
            for p in ["C02", "C04"] { sc.viol(p, "a transaction without its signatures was accepted in a later block after its signed twin had been validated in a rejected batch".into()); }
        }
        sc.op_batch(&[t2]);
        sc.block_end(None);
        out.push(sc);
    }
    // swaps of one pool and one block that pay in exactly the same amount on opposite sides (and twice on one side):
    // each is paid from the other side at the one price of the block (the MEL/ERG pool: neither the peg nor the
    // subsidy touches it on this network, so the flow reflection judges it)
    {
        let mut sc = base("d_swaps_equal_amounts_opposite_sides", r, NetID::Custom02, 1000);
        sc.block_end(None);
        let at = sc.at();
        sc.fixed_change = Some(at);
        let f = sc.fund(r, &[(1 << 42, Denom::Mel), (1 << 42, Denom::Mel), (1 << 42, Denom::Mel), (1 << 42, Denom::Mel), (1 << 42, Denom::Mel), (1 << 42, Denom::Mel), (1 << 42, Denom::Mel), (1 << 40, Denom::Erg), (1 << 40, Denom::Erg), (1 << 40, Denom::Erg)]);
        sc.op_batch(&[f.clone()]);
        sc.block_end(None);
        let fc = |i: u8| (CoinID::new(f.hash_nosigs(), i), CoinDataHeight { coin_data: f.outputs[i as usize].clone(), height: BlockHeight(1) });
        let key = PoolKey::new(Denom::Mel, Denom::Erg).to_bytes().to_vec();
        // move the price away from 1:1 first
        let t = sc.mk(r, TxKind::Swap, &[fc(0)], vec![sc.cd(at, 700_000_000, Denom::Mel)], key.clone());
        sc.op_batch(&[t]);
        sc.block_end(None);
        for (round, amt) in [(0u8, 50_000u128), (1, 77_777_777)] {
            let mel_side = |sc: &mut Scenario, r: &mut Rng, i: u8, n: u8| { let mut o = sc.cd(at, amt, Denom::Mel); o.additional_data = Bytes::from(vec![n]); sc.mk(r, TxKind::Swap, &[fc(i)], vec![o], key.clone()) };
            let erg_side = |sc: &mut Scenario, r: &mut Rng, i: u8, j: u8, n: u8| { let mut o = sc.cd(at, amt, Denom::Erg); o.additional_data = Bytes::from(vec![n]); sc.mk(r, TxKind::Swap, &[fc(i), fc(j)], vec![o, sc.cd(at, (1 << 40) - amt, Denom::Erg)], key.clone()) };
            let batch = if round == 0 { vec![mel_side(&mut sc, r, 1, 1), erg_side(&mut sc, r, 2, 7, 2)] }
                        else { vec![erg_side(&mut sc, r, 3, 8, 3), mel_side(&mut sc, r, 4, 4), mel_side(&mut sc, r, 5, 5), erg_side(&mut sc, r, 6, 9, 6)] };
            sc.op_batch(&batch);
            sc.block_end(None);
        }
        out.push(sc);
    }
    // faucets of unusual shape are faucets too: no output at all (only the fee is minted), one burnt output, a
    // zero-valued output - each is replayed in the same batch, in a later batch of the block, in the next block,
    // after a restart and inside a block handed to apply_block
    {
        let mut sc = base("d_faucet_shapes_replayed", r, NetID::Custom02, 1000);
        let at = sc.at();
        let mut fs: Vec<Transaction> = vec![];
        for shape in 0..3u8 {
            let mut f = Transaction::new(TxKind::Faucet);
            f.outputs = match shape { 0 => vec![], 1 => vec![sc.cd(Address(HashVal::default()), 5000, Denom::Mel)], _ => vec![sc.cd(at, 0, Denom::Mel)] };
            f.data = Bytes::from(vec![0xf0, shape]);
            fs.push(sc.finish_tx(r, f, &[], 0, 7));
        }
        for f in &fs { sc.op_batch(&[f.clone()]); }
        for f in &fs { sc.op_batch(&[f.clone()]); sc.op_batch(&[f.clone(), f.clone()]); }
        sc.block_end(None);
        for f in &fs { sc.op_batch(&[f.clone()]); }
        sc.op_seal(None); sc.op_restart(); sc.op_next();
        for f in &fs { sc.op_batch(&[f.clone()]); }
        sc.op_seal(None);
        for f in &fs { let c = sc.op_apply_block(&[f.clone()], None, 0, r); if c == 0 { sc.viol("C19", "a block replaying an accepted faucet transaction was accepted".into()); } }
        out.push(sc);
    }
    // a faucet transaction that lists inputs: they need their covenants' approval like any other spend
    {
        let mut sc = base("d_faucet_with_inputs", r, NetID::Custom02, 1000);
        let at = sc.at();
        let never = sc.addr_of(|k| matches!(k, CovKind::Never));
        let signed = sc.addr_of(|k| matches!(k, CovKind::SigNew(1)));
        let mut f = Transaction::new(TxKind::Faucet);
        f.outputs = vec![sc.cd(never, 1 << 30, Denom::Mel), sc.cd(signed, 1 << 30, Denom::Mel), sc.cd(at, 1 << 30, Denom::Mel)];
        let f = sc.finish_tx(r, f, &[], 0, 0);
        sc.op_batch(&[f.clone()]);
        sc.block_end(None);
        let fc = |i: u8| (CoinID::new(f.hash_nosigs(), i), CoinDataHeight { coin_data: f.outputs[i as usize].clone(), height: BlockHeight(0) });
        for i in 0..3u8 {
            let mut t = Transaction::new(TxKind::Faucet);
            t.outputs = vec![sc.cd(at, 77 + i as u128, Denom::Mel)];
            t.data = Bytes::from(vec![i]);
            let mut t = sc.finish_tx(r, t, &[fc(i)], 0, 0);
            if i == 1 { t.sigs = vec![Bytes::from(vec![0u8; 64])]; }      // a forged signature
            sc.op_batch(&[t]);
        }
        // ... and one whose covenant is not even listed
        let mut t = Transaction::new(TxKind::Faucet);
        t.outputs = vec![sc.cd(at, 99, Denom::Mel)];
        let mut t = sc.finish_tx(r, t, &[fc(0)], 0, 0);
        t.covenants = vec![];
        sc.op_batch(&[t]);
        sc.block_end(None);
        out.push(sc);
    }
    // a covenant whose weight exceeds 2^64 (five nested loops), carried unused by a faucet that pays exactly the minimum fee
    {
        let mut sc = base("d_heavy_covenant", r, NetID::Custom02, 1000);
        let at = sc.at();
        let heavy = Covenant::from_ops(&[OpCode::Loop(65535, 6), OpCode::Loop(65535, 5), OpCode::Loop(65535, 4), OpCode::Loop(65535, 3), OpCode::Loop(65535, 2), OpCode::Noop, OpCode::PushI(U256::ONE)]).to_bytes().to_vec();
        for adj in [-1i128, 0] {
            let mut f = Transaction::new(TxKind::Faucet);
            f.outputs = vec![sc.cd(at, 1234 + (adj + 1) as u128, Denom::Mel)];
            f.covenants = vec![Bytes::from(heavy.clone())];
            f.sigs = vec![];
            let mult = sc.ustate().verif_fee_multiplier();
            f.fee = CoinValue(1 << 30);
            let mut min = 0u128;
            for _ in 0..4 { min = f.base_fee(mult, 0, melvm::covenant_weight_from_bytes).0; f.fee = CoinValue(min); }   // the fee is part of the serialized size
            f.fee = CoinValue(((min as i128) + adj).max(0) as u128);
            sc.op_batch(&[f]);
        }
        let a = act(&sc, 1);
        sc.block_end(a);
        out.push(sc);
    }
    // two swap requests of one block whose hashes share their first four bytes (found by varying eight bytes of additional data)
    {
        let mut sc = base("d_txhash_prefix_collision", r, NetID::Custom02, 1000);
        let at = sc.at();
        sc.block_end(None);
        let ms: Vec<(CoinID, CoinDataHeight)> = sc.wallet().coins.into_iter().filter(|(_, c)| c.coin_data.denom == Denom::Mel && c.coin_data.covhash == at && c.coin_data.value.0 >= 1 << 40).take(2).collect();
        if ms.len() == 2 {
            let mk_swap = |sc: &mut Scenario, r: &mut Rng, m: (CoinID, CoinDataHeight), v: u128| -> Transaction {
                let mut t = Transaction::new(TxKind::Swap);
                t.outputs = vec![sc.cd(at, v, Denom::Mel)];
                t.data = Bytes::from(b"s".to_vec());
                let mut t = sc.finish_tx(r, t, &[m], 0, 0);
                t.covenants.truncate(1);
                // the change output carries eight bytes of additional data (a counter); pay a little more than the minimum
                if t.outputs.len() < 2 { t.outputs.push(CoinData { covhash: at, value: CoinValue(0), denom: Denom::Mel, additional_data: Bytes::new() }); }
                let ch = t.outputs.len() - 1;
                t.outputs[ch].additional_data = Bytes::from(vec![0u8; 8]);
                let extra = 100_000u128.min(t.outputs[ch].value.0);
                t.outputs[ch].value = CoinValue(t.outputs[ch].value.0 - extra);
                t.fee = CoinValue(t.fee.0 + extra);
                t
            };
            let a0 = mk_swap(&mut sc, r, ms[0].clone(), 1 << 30);
            let b0 = mk_swap(&mut sc, r, ms[1].clone(), 1 << 29);
            let variant = |t: &Transaction, n: u64| -> Transaction { let mut t = t.clone(); let ch = t.outputs.len() - 1; t.outputs[ch].additional_data = Bytes::from(n.to_be_bytes().to_vec()); t };
            let prefix = |t: &Transaction| -> [u8; 4] { let h = t.hash_nosigs().0 .0; [h[0], h[1], h[2], h[3]] };
            let mut seen: HashMap<[u8; 4], u64> = HashMap::new();
            for n in 0..150_000u64 { seen.insert(prefix(&variant(&a0, n)), n); }
            let mut found: Option<(u64, u64)> = None;
            for n in 0..400_000u64 { if let Some(na) = seen.get(&prefix(&variant(&b0, n))) { found = Some((*na, n)); break; } }
            if let Some((na, nb)) = found {
                sc.bump("txhash_prefix_collision_found");
                let (ta, tb) = (variant(&a0, na), variant(&b0, nb));
                sc.op_batch(&[ta]);
                sc.op_batch(&[tb]);
                if sc.op_seal(None) == 0 { sc.op_restart(); }
            }
        }
        out.push(sc);
    }
    // a staking-epoch boundary with a lapsing stake
    {
        let mut sc = Scenario::new("d_epoch_boundary", r, NetID::Custom02, 1000, 1 << 20);
        sc.fixed_change = Some(sc.at());
        let db = Database::new(InMemoryCas::default());
        let mut stakes = BTreeMap::new();
        stakes.insert(TxHash(tmelcrypt::hash_single(b"lapsing")), StakeDoc { pubkey: sc.keys.pk[0], e_start: 0, e_post_end: 0, syms_staked: CoinValue(7) });
        stakes.insert(TxHash(tmelcrypt::hash_single(b"staying")), StakeDoc { pubkey: sc.keys.pk[1], e_start: 0, e_post_end: 5, syms_staked: CoinValue(9) });
        let cfg = GenesisConfig { network: NetID::Custom02, init_coindata: CoinData { covhash: sc.at(), value: CoinValue(1 << 50), denom: Denom::Mel, additional_data: Bytes::new() }, stakes, init_fee_pool: CoinValue(1 << 20), init_fee_multiplier: 1000 };
        sc.mode = Mode::U(cfg.realize(&db));
        sc.db = db;
        sc.jump_to_height(STAKE_EPOCH - 2);
        let a = Some(ProposerAction { fee_multiplier_delta: 1, reward_dest: sc.at() });
        for _ in 0..3 {
            sc.op_next();
            if sc.op_seal(a) != 0 { break; }
            sc.op_confirm(&[(0, true), (1, true)]);
            sc.op_restart();
        }
        out.push(sc);
    }
    // the stakes that count for a sealed state are those of ITS height's epoch: around an epoch boundary where one
    // stake ends and another starts, every subset of signers is tried in the last block of the old epoch and the
    // first two of the new one
    {
        let mut sc = Scenario::new("d_epoch_boundary_votes", r, NetID::Custom02, 1000, 1 << 20);
        sc.fixed_change = Some(sc.at());
        let db = Database::new(InMemoryCas::default());
        let mut stakes = BTreeMap::new();
        stakes.insert(TxHash(tmelcrypt::hash_single(b"ending")), StakeDoc { pubkey: sc.keys.pk[0], e_start: 0, e_post_end: 1, syms_staked: CoinValue(10) });
        stakes.insert(TxHash(tmelcrypt::hash_single(b"starting")), StakeDoc { pubkey: sc.keys.pk[1], e_start: 1, e_post_end: 5, syms_staked: CoinValue(10) });
        stakes.insert(TxHash(tmelcrypt::hash_single(b"through")), StakeDoc { pubkey: sc.keys.pk[2], e_start: 0, e_post_end: 5, syms_staked: CoinValue(1) });
        let cfg = GenesisConfig { network: NetID::Custom02, init_coindata: CoinData { covhash: sc.at(), value: CoinValue(1 << 50), denom: Denom::Mel, additional_data: Bytes::new() }, stakes, init_fee_pool: CoinValue(1 << 20), init_fee_multiplier: 1000 };
        sc.mode = Mode::U(cfg.realize(&db));
        sc.db = db;
        sc.jump_to_height(STAKE_EPOCH - 2);
        for _ in 0..3 {
            sc.op_next();
            if sc.op_seal(None) != 0 { break; }
            let h = match &sc.mode { Mode::S(s) => s.header().height.0, _ => 0 };
            let epoch = h / STAKE_EPOCH;
            for subset in [vec![0usize], vec![1], vec![2], vec![0, 2], vec![1, 2], vec![0, 1], vec![0, 1, 2]] {
                let before = sc.steps.len();
                let v: Vec<(usize, bool)> = subset.iter().map(|k| (*k, true)).collect();
                sc.op_confirm(&v);
                // votes by the definition: stake k counts in epoch e iff start <= e < end
                let power = |k: usize| -> u128 { match k { 0 => if epoch < 1 { 10 } else { 0 }, 1 => if epoch >= 1 && epoch < 5 { 10 } else { 0 }, _ => if epoch < 5 { 1 } else { 0 } } };
                let total: u128 = (0..3).map(power).sum();
                let present: u128 = subset.iter().map(|k| power(*k)).sum();
                let confirmed = sc.log.last().map(|l| l.starts_with("confirm=true")).unwrap_or(false);
                if sc.steps.len() > before && total > 0 {
                    if confirmed && 3 * present < 2 * total { sc.viol("C14", format!("height {}: signers holding {} of {} votes of the state's epoch confirmed it", h, present, total)); }
                    if !confirmed && 3 * present > 2 * total { sc.viol("C14", format!("height {}: signers holding {} of {} votes of the state's epoch did not confirm it", h, present, total)); }
                }
            }
        }
        out.push(sc);
    }
    // the one grandfathered faucet transaction of mainnet exempts itself, not its neighbours: another faucet in the same
    // batch is refused on mainnet and, elsewhere, still gets its replay marker
    for net in [NetID::Mainnet, NetID::Custom02] {
        let mut sc = Scenario::new(if net == NetID::Mainnet { "d_grandfathered_faucet_mainnet" } else { "d_grandfathered_faucet_custom" }, r, net, 0, 1 << 20);
        let at = sc.at();
        sc.fixed_change = Some(at);
        let old = Transaction { kind: TxKind::Faucet, inputs: vec![], outputs: vec![CoinData { value: CoinValue::from_millions(1001u64), denom: Denom::Mel, covhash: "t3ew4xh2yts8j1a8vzdfpbkzzvb5gz3sn7s9jw7qc9djrph2wpg52g".parse().unwrap(), additional_data: vec![].into() }],
            data: hex::decode("202fb0573b6dfe780f249bec6069bb39dbccb7ed9536c0480e20e1e29050f430").unwrap().into(), fee: CoinValue::from_millions(1001u64), covenants: vec![], sigs: vec![] };
        sc.dict.cov(old.outputs[0].covhash);
        let mut f = Transaction::new(TxKind::Faucet);
        f.outputs = vec![sc.cd(at, 1 << 40, Denom::Mel)];
        f.data = Bytes::from(vec![0x6f]);
        let f = sc.finish_tx(r, f, &[], 0, 0);
        for b in [vec![old.clone(), f.clone()], vec![f.clone(), old.clone()]] {
            let c = sc.op_batch(&b);
            if c == 0 && net == NetID::Mainnet { sc.viol("C19", "a faucet transaction was accepted on mainnet next to the grandfathered one".into()); }
            if c == 0 { break; }
        }
        sc.op_batch(&[f.clone()]);
        sc.op_batch(&[old.clone()]);
        sc.block_end(None);
        sc.op_batch(&[f.clone()]);
        sc.op_batch(&[old.clone(), f.clone()]);
        sc.block_end(None);
        out.push(sc);
    }
    // a transaction with a forged signature first, then the same transaction with the genuine signatures
    {
        let mut sc = base("d_forged_then_genuine", r, NetID::Custom02, 1000);
        let at = sc.at();
        let s0 = sc.addr_of(|k| matches!(k, CovKind::SigNew(0)));
        let s1 = sc.addr_of(|k| matches!(k, CovKind::SigNew(1)));
        let mut f = Transaction::new(TxKind::Faucet);
        f.outputs = vec![sc.cd(s0, 1 << 40, Denom::Mel), sc.cd(s1, 1 << 40, Denom::Mel)];
        let f = sc.finish_tx(r, f, &[], 0, 0);
        sc.op_batch(&[f.clone()]);
        sc.block_end(None);
        let coin = |i: u8| (CoinID::new(f.hash_nosigs(), i), CoinDataHeight { coin_data: f.outputs[i as usize].clone(), height: BlockHeight(0) });
        let good = sc.mk(r, TxKind::Normal, &[coin(0), coin(1)], vec![sc.cd(at, 1 << 40, Denom::Mel)], vec![]);
        let mut forged = good.clone();
        if forged.sigs.len() >= 2 { forged.sigs[1] = Bytes::from(vec![0u8; 64]); }
        sc.op_batch(&[forged]);
        sc.op_batch(&[good]);
        sc.block_end(None);
        out.push(sc);
    }
    // F25: a pool created with an empty side, then a second deposit
    {
        let mut sc = base("d_f25", r, NetID::Custom02, 1000);
        sc.block_end(None);
        let at = sc.at();
        for _ in 0..2 {
            let m = sc.coin_of(Denom::Mel, 1 << 40);
            let s = sc.coin_of(Denom::Sym, 100);
            if let (Some(m), Some(s)) = (m, s) {
                let mut key = vec![0u8; 32]; key.extend_from_slice(&stdcode::serialize(&(Denom::Erg, Denom::Sym)).unwrap());
                let e = sc.coin_of(Denom::Erg, 100).unwrap();
                let t = sc.mk(r, TxKind::LiqDeposit, &[m, e.clone(), s.clone()], vec![sc.cd(at, 5, Denom::Erg), sc.cd(at, 0, Denom::Sym), sc.cd(at, e.1.coin_data.value.0 - 5, Denom::Erg), sc.cd(at, s.1.coin_data.value.0, Denom::Sym)], key);
                sc.op_batch(&[t]);
                if !sc.block_end(None) { break; }
            }
        }
        out.push(sc);
    }
    // (scenarios added late are appended here: the ones above keep their random choices)
    // stake transactions in the last block of an epoch and the first of the next: "starts in a future epoch" is judged
    // against the epoch of the block the transaction is in
    {
        let mut sc = Scenario::new("d_stake_at_epoch_boundary", r, NetID::Custom02, 1000, 1 << 20);
        let at = sc.at();
        sc.fixed_change = Some(at);
        let db = Database::new(InMemoryCas::default());
        let cfg = GenesisConfig { network: NetID::Custom02, init_coindata: CoinData { covhash: at, value: CoinValue(1 << 50), denom: Denom::Mel, additional_data: Bytes::new() }, stakes: BTreeMap::new(), init_fee_pool: CoinValue(1 << 20), init_fee_multiplier: 1000 };
        sc.mode = Mode::U(cfg.realize(&db));
        sc.db = db;
        sc.jump_to_height(STAKE_EPOCH - 3);
        sc.op_next();
        let f = sc.fund(r, &[(1 << 40, Denom::Mel), (1 << 40, Denom::Mel), (1 << 40, Denom::Mel), (1 << 40, Denom::Mel), (1 << 30, Denom::Sym), (1 << 30, Denom::Sym), (1 << 30, Denom::Sym), (1 << 30, Denom::Sym)]);
        sc.op_batch(&[f.clone()]);
        sc.block_end(None);
        let fc = |i: u8| (CoinID::new(f.hash_nosigs(), i), CoinDataHeight { coin_data: f.outputs[i as usize].clone(), height: BlockHeight(STAKE_EPOCH - 2) });
        let mut k = 0u8;
        for _ in 0..2 {
            let epoch = sc.ustate().verif_height().0 / STAKE_EPOCH;
            for (es, ee) in [(epoch + 1, epoch + 3), (epoch, epoch + 2)] {
                let doc = StakeDoc { pubkey: sc.keys.pk[(k % 3) as usize], e_start: es, e_post_end: ee, syms_staked: CoinValue(1 << 20) };
                let mut st = Transaction::new(TxKind::Stake);
                st.outputs = vec![sc.cd(at, 1 << 20, Denom::Sym), sc.cd(at, (1 << 30) - (1 << 20), Denom::Sym)];
                st.data = Bytes::from(doc.stdcode());
                let st = sc.finish_tx(r, st, &[fc(k), fc(4 + k)], 0, 0);
                let before = sc.ustate().verif_stakes().get_stake(st.hash_nosigs()).is_some();
                if sc.op_batch(&[st.clone()]) == 0 {
                    let reg = sc.ustate().verif_stakes().get_stake(st.hash_nosigs()).is_some();
                    if (es > epoch) != reg && !before { sc.viol("C13", format!("a stake for epochs [{}, {}) accepted in epoch {} is {}registered", es, ee, epoch, if reg { "" } else { "not " })); }
                }
                k += 1;
            }
            if !sc.block_end(None) { break; }
        }
        out.push(sc);
    }
    // one swap that pays in exactly as much as all swaps of the other direction together, next to another swap of
    // its own direction - in both orientations of the pool
    {
        let mut sc = base("d_swap_equal_to_opposite_total", r, NetID::Custom02, 1000);
        let at = sc.at();
        sc.fixed_change = Some(at);
        sc.block_end(None);
        let mut want = vec![(1u128 << 42, Denom::Mel); 8];
        want.extend(vec![(1u128 << 40, Denom::Erg); 4]);
        let f = sc.fund(r, &want);
        sc.op_batch(&[f.clone()]);
        sc.block_end(None);
        let fc = |i: u8| (CoinID::new(f.hash_nosigs(), i), CoinDataHeight { coin_data: f.outputs[i as usize].clone(), height: BlockHeight(1) });
        let key = PoolKey::new(Denom::Mel, Denom::Erg).to_bytes().to_vec();
        let t = sc.mk(r, TxKind::Swap, &[fc(0)], vec![sc.cd(at, 300_000_000, Denom::Mel)], key.clone());
        sc.op_batch(&[t]);
        sc.block_end(None);
        let mel = |sc: &mut Scenario, r: &mut Rng, i: u8, amt: u128| { let mut o = sc.cd(at, amt, Denom::Mel); o.additional_data = Bytes::from(vec![i]); sc.mk(r, TxKind::Swap, &[fc(i)], vec![o], key.clone()) };
        let erg = |sc: &mut Scenario, r: &mut Rng, i: u8, j: u8, amt: u128| { let mut o = sc.cd(at, amt, Denom::Erg); o.additional_data = Bytes::from(vec![i]); sc.mk(r, TxKind::Swap, &[fc(i), fc(j)], vec![o, sc.cd(at, (1 << 40) - amt, Denom::Erg)], key.clone()) };
        // one MEL swap of 60000; ERG swaps of 60000 (= the MEL total) and 12345
        let b1 = vec![mel(&mut sc, r, 1, 60_000), erg(&mut sc, r, 2, 8, 60_000), erg(&mut sc, r, 3, 9, 12_345)];
        sc.op_batch(&b1);
        sc.block_end(None);
        // one ERG swap of 70000; MEL swaps of 70000 (= the ERG total) and 4321; and a zero-valued one beside them
        let b2 = vec![erg(&mut sc, r, 4, 10, 70_000), mel(&mut sc, r, 5, 70_000), mel(&mut sc, r, 6, 4_321)];
        sc.op_batch(&b2);
        sc.block_end(None);
        out.push(sc);
    }
    out
}

//! `stf` stream: histories driven through the real melstf API, recorded as scenarios for the model.
use crate::coqfmt as cf;
use crate::out::{Emitter, Stats};
use crate::rng::Rng;
use crate::stfdump::*;
use bytes::Bytes;
use ethnum::U256;
use melstf::{GenesisConfig, SealedState, StateError};
use melstructs::*;
use melvm::opcode::OpCode;
use melvm::{Covenant, CovenantEnv, Value, VerifExecutor};
use novasmt::{Database, InMemoryCas};
use std::collections::{BTreeMap, HashMap, HashSet};
use std::panic::{catch_unwind, AssertUnwindSafe};
use stdcode::StdcodeSerializeExt;
use tmelcrypt::{Ed25519PK, Ed25519SK, HashVal, Hashable};

pub fn err_code(e: &StateError) -> u32 {
    match e {
        StateError::MalformedTx => 1, StateError::NonexistentCoin(_) => 2, StateError::UnbalancedInOut => 3,
        StateError::InsufficientFees(_) => 4, StateError::NonexistentScript(_) => 5, StateError::ViolatesScript(_) => 6,
        StateError::InvalidMelPoW => 7, StateError::WrongHeader(..) => 8, StateError::CoinLocked => 9, StateError::DuplicateTx => 10,
    }
}

#[derive(Clone)]
pub enum CovKind { AlwaysTrue, SigNew(usize), SigLegacy(usize), IndexZero, Never, Undecodable, HeightLock(u64), ValueAtLeast(u128) }
#[derive(Clone)]
pub struct CovInfo { pub bytes: Vec<u8>, pub kind: CovKind }

pub struct Keys { pub pk: Vec<Ed25519PK>, pub sk: Vec<Ed25519SK> }

pub enum Mode { U(St), S(SealedState<InMemoryCas>) }

pub struct Tables {
    pub hashes: Vec<(Vec<u8>, Vec<u8>)>,
    pub sigs: Vec<((Vec<u8>, Vec<u8>, Vec<u8>), bool)>,
    pub reward: BTreeMap<u64, HashVal>,
    pub marker: BTreeMap<HashVal, HashVal>,
    pub hdr: Vec<Header>,
    pub melpow: Vec<((usize, HashVal, CoinID, u32), u32)>,
    pub ed: Vec<((Ed25519PK, HashVal, Vec<u8>), bool)>,
}

pub struct Scenario {
    pub db: Database<InMemoryCas>,
    pub mode: Mode,
    pub dict: Dict,
    pub tables: Tables,
    pub proofs: Proofs,
    pub defs: Vec<String>,              // Coq definitions of transactions / headers, named
    pub txnames: HashMap<HashVal, String>,
    pub name: String,
    pub init: String,
    pub steps: Vec<String>,
    pub log: Vec<String>,               // human-readable op log for the sidecar
    pub covs: HashMap<Address, CovInfo>,
    pub keys: Keys,
    pub violates: BTreeMap<String, String>,
    pub class: Vec<String>,
    pub counters: BTreeMap<String, u64>,
    pub unknown_keys: Vec<String>,
}

fn std_cov(kind: &CovKind, keys: &Keys) -> Vec<u8> {
    use OpCode::*;
    match kind {
        CovKind::AlwaysTrue => Covenant::always_true().to_bytes().to_vec(),
        CovKind::SigNew(i) => Covenant::std_ed25519_pk_new(keys.pk[*i]).to_bytes().to_vec(),
        CovKind::SigLegacy(i) => Covenant::std_ed25519_pk_legacy(keys.pk[*i]).to_bytes().to_vec(),
        CovKind::IndexZero => Covenant::from_ops(&[LoadImm(9), PushI(U256::ZERO), Eql]).to_bytes().to_vec(),
        CovKind::Never => Covenant::from_ops(&[PushI(U256::ZERO)]).to_bytes().to_vec(),
        CovKind::Undecodable => vec![0x00, 0x01, 0x02],
        // spendable once the previous block's height (last header field 2) is >= h
        CovKind::HeightLock(h) => Covenant::from_ops(&[PushI(U256::from(*h)), PushI(U256::from(2u32)), LoadImm(10), VRef, Lt, PushI(U256::ZERO), Eql]).to_bytes().to_vec(),
        // the coin's own value (heap 5) must be >= v
        CovKind::ValueAtLeast(v) => Covenant::from_ops(&[PushI(U256::from(*v)), LoadImm(5), Lt, PushI(U256::ZERO), Eql]).to_bytes().to_vec(),
    }
}

impl Scenario {
    pub fn bump(&mut self, k: &str) { *self.counters.entry(k.to_string()).or_insert(0) += 1; }

    pub fn new(name: &str, r: &mut Rng, net: NetID, mult: u128, fee_pool: u128) -> Scenario {
        let db = Database::new(InMemoryCas::default());
        let mut keys = Keys { pk: vec![], sk: vec![] };
        for _ in 0..3 { let (p, s) = tmelcrypt::ed25519_keygen(); keys.pk.push(p); keys.sk.push(s); }
        let mut covs = HashMap::new();
        for k in [CovKind::AlwaysTrue, CovKind::SigNew(0), CovKind::SigNew(1), CovKind::SigLegacy(2), CovKind::IndexZero, CovKind::Never,
                  CovKind::Undecodable, CovKind::HeightLock(2), CovKind::ValueAtLeast(1000)] {
            let b = std_cov(&k, &keys);
            covs.insert(Address(tmelcrypt::hash_single(&b)), CovInfo { bytes: b, kind: k });
        }
        let first = match r.below(3) { 0 => CovKind::AlwaysTrue, 1 => CovKind::SigNew(0), _ => CovKind::SigLegacy(2) };
        let first_hash = Address(tmelcrypt::hash_single(&std_cov(&first, &keys)));
        let mut stakes = BTreeMap::new();
        let nstake = r.below(4);
        for i in 0..nstake {
            stakes.insert(TxHash(tmelcrypt::hash_single(&[b's', i as u8])), StakeDoc {
                pubkey: keys.pk[(i % 3) as usize], e_start: if r.chance(1, 5) { 1 } else { 0 }, e_post_end: *r.pick(&[1u64, 2, 3, 100]),
                syms_staked: CoinValue(*r.pick(&[1u128, 2, 3, 10, 1000])) });
        }
        let cfg = GenesisConfig {
            network: net,
            init_coindata: CoinData { covhash: first_hash, value: CoinValue(*r.pick(&[1u128 << 60, 1 << 40, 1u128 << 100, 5_000_000_000])), denom: if r.chance(3, 4) { Denom::Mel } else { Denom::Sym }, additional_data: Bytes::new() },
            stakes, init_fee_pool: CoinValue(fee_pool), init_fee_multiplier: mult,
        };
        let st = cfg.realize(&db);
        let mut sc = Scenario { db, mode: Mode::U(st), dict: Dict::default(),
            tables: Tables { hashes: vec![], sigs: vec![], reward: BTreeMap::new(), marker: BTreeMap::new(), hdr: vec![], melpow: vec![], ed: vec![] },
            proofs: Proofs { table: vec![] }, defs: vec![], txnames: HashMap::new(), name: name.to_string(), init: String::new(), steps: vec![], log: vec![],
            covs, keys, violates: BTreeMap::new(), class: vec![], counters: BTreeMap::new(), unknown_keys: vec![] };
        sc.dict.coin(CoinID::zero_zero());
        let covh: Vec<Address> = sc.covs.keys().cloned().collect();
        for a in covh { sc.dict.cov(a); }
        sc.dict.cov(Address(HashVal::default()));
        for d in [Denom::Sym, Denom::Erg] { sc.dict.pool(PoolKey::new(Denom::Mel, d)); }
        sc.dict.pool(PoolKey::new(Denom::Erg, Denom::Sym));
        for h in 0..64u64 { sc.dict.height(h); }
        let d = sc.dump_now();
        sc.init = sc.dump_str(&d);
        sc
    }

    pub fn ustate(&self) -> &St { match &self.mode { Mode::U(u) => u, Mode::S(s) => s.verif_inner() } }

    pub fn dump_now(&mut self) -> Dump {
        let d = dump(self.ustate(), &self.dict);
        for u in &d.unknown { self.unknown_keys.push(u.clone()); }
        for h in d.history.values() { self.note_header(h); }
        d
    }
    pub fn note_header(&mut self, h: &Header) { if !self.tables.hdr.contains(h) { self.tables.hdr.push(*h); } }

    fn txname(&mut self, t: &Transaction) -> String {
        let key = t.stdcode().hash();
        if let Some(n) = self.txnames.get(&key) { return n.clone(); }
        let n = format!("{}_t{}", self.name, self.txnames.len());
        let body = tx(t, &mut self.proofs);
        self.defs.push(format!("Definition {} : tx := {}.", n, body));
        self.txnames.insert(key, n.clone());
        self.dict.tx(t);
        if t.kind == TxKind::Faucet { let h = t.hash_nosigs(); self.tables.marker.insert(h.0, tmelcrypt::hash_keyed(b"fdp", h.0)); }
        n
    }
    fn txlist(&mut self, txs: &[Transaction]) -> String {
        let names: Vec<String> = txs.iter().map(|t| self.txname(t)).collect();
        format!("[{}]", names.join("; "))
    }
    pub fn dump_str(&mut self, d: &Dump) -> String {
        // transactions by name
        let names: Vec<String> = d.txs.iter().map(|t| self.txname(t)).collect();
        let mut s = dump_coq(&Dump { txs: vec![], ..clone_dump(d) }, &mut self.proofs);
        s = s.replace("d_txs := []", &format!("d_txs := [{}]", names.join("; ")));
        s
    }
    fn push_step(&mut self, op: String, code: u32, what: &str) {
        let d = self.dump_now();
        let ds = self.dump_str(&d);
        self.steps.push(format!("{{| st_op := {}; st_code := {}; st_post := {} |}}", op, code, ds));
        self.log.push(format!("{} -> {}", what, code));
        self.bump(&format!("op_{}", what.split(|c| c == ' ' || c == '[' || c == '(' || c == '=').next().unwrap_or("?")));
        self.bump(&format!("code_{}", code));
    }

    /// runs every covenant the batch could execute, recording the Hash / SigEOk oracle answers
    fn collect_vm_oracles(&mut self, txs: &[Transaction], last: &Header) {
        let u = self.ustate().clone();
        let height = u.verif_height();
        let mut produced: HashMap<CoinID, CoinDataHeight> = HashMap::new();
        for t in txs {
            let h = t.hash_nosigs();
            for (i, o) in t.outputs.iter().enumerate().take(256) {
                let mut cd = o.clone();
                if cd.denom == Denom::NewCustom { cd.denom = Denom::Custom(h); }
                produced.insert(CoinID::new(h, i as u8), CoinDataHeight { coin_data: cd, height });
            }
        }
        let coins = melstf::CoinMapping::new(u.verif_coins());
        for t in txs {
            let scripts = t.covenants_as_map();
            for (idx, inp) in t.inputs.iter().enumerate() {
                let cdh = match produced.get(inp).cloned().or_else(|| coins.get_coin(*inp)) { Some(c) => c, None => continue };
                let script = match scripts.get(&cdh.coin_data.covhash) { Some(s) => s, None => continue };
                let ops = match Covenant::from_bytes(script) { Ok(c) => c.to_ops(), Err(_) => continue };
                let env = CovenantEnv { parent_coinid: *inp, parent_cdh: cdh, spender_index: idx as u8, last_header: *last };
                let mut ex = VerifExecutor::new_from_env(ops.clone(), t.clone(), Some(env));
                let mut steps = 0;
                let _ = catch_unwind(AssertUnwindSafe(|| {
                    while ex.pc() < ops.len() && steps < 100_000 {
                        steps += 1;
                        match &ops[ex.pc()] {
                            OpCode::Hash(_) => if let Some(Value::Bytes(b)) = ex.stack.last() { let b: Vec<u8> = b.clone().into(); self.tables.hashes.push((b.clone(), tmelcrypt::hash_single(&b).0.to_vec())); },
                            OpCode::SigEOk(_) => {
                                let n = ex.stack.len();
                                if n >= 3 {
                                    if let (Value::Bytes(m), Value::Bytes(pk), Value::Bytes(sg)) = (&ex.stack[n - 1], &ex.stack[n - 2], &ex.stack[n - 3]) {
                                        let (m, pk, sg): (Vec<u8>, Vec<u8>, Vec<u8>) = (m.clone().into(), pk.clone().into(), sg.clone().into());
                                        if pk.len() == 32 && sg.len() <= 64 {
                                            let ok = Ed25519PK::from_bytes(&pk).map(|k| k.verify(&m, &sg)).unwrap_or(false);
                                            let key = (pk, m, sg);
                                            if !self.tables.sigs.iter().any(|(k, _)| *k == key) { self.tables.sigs.push((key, ok)); }
                                        }
                                    }
                                }
                            }
                            _ => {}
                        }
                        if ex.step().is_none() { break; }
                    }
                }));
            }
        }
    }

    fn last_header(&self) -> Option<Header> {
        let u = self.ustate();
        let h = u.verif_height().0;
        let hist = melstf::SmtMapping::<InMemoryCas, BlockHeight, Header>::new(u.verif_history());
        hist.get(&BlockHeight(h.saturating_sub(1))).or_else(|| {
            let c = u.clone();
            catch_unwind(AssertUnwindSafe(move || c.seal(None).header())).ok()
        })
    }

    pub fn op_batch(&mut self, txs: &[Transaction]) -> u32 {
        let u = match &self.mode { Mode::U(u) => u.clone(), _ => panic!("batch on sealed") };
        let lh = self.last_header();
        let names = self.txlist(txs);
        let at0 = melstf::SmtMapping::<InMemoryCas, BlockHeight, Header>::new(u.verif_history()).get(&BlockHeight(u.verif_height().0.saturating_sub(1))).is_none();
        let r0 = match (&lh, at0) { (Some(h), true) => roots_of(h), _ => roots_zero() };
        if let Some(h) = &lh { self.note_header(h); self.collect_vm_oracles(txs, h); }
        let before = u.verif_coins().root_hash();
        let mut work = u.clone();
        let res = catch_unwind(AssertUnwindSafe(|| { let r = work.apply_tx_batch(txs); (r, work) }));
        let code = match res {
            Ok((Ok(()), w)) => { self.mode = Mode::U(w); 0 }
            Ok((Err(e), w)) => {
                if w.verif_coins().root_hash() != before || w.verif_transactions().len() != u.verif_transactions().len() {
                    self.violates.insert("C02".into(), format!("rejected batch changed the state (step {})", self.steps.len()));
                }
                err_code(&e)
            }
            Err(p) => { self.violates.insert("C09".into(), format!("apply_tx_batch panicked at step {}: {}", self.steps.len(), crate::panic_msg(&p))); 100 }
        };
        self.push_step(format!("OpBatch {} {}", names, r0), code, &format!("batch[{}]", txs.iter().map(|t| kind(t.kind)).collect::<Vec<_>>().join(",")));
        code
    }

    pub fn op_seal(&mut self, a: Option<ProposerAction>) -> u32 {
        let u = match &self.mode { Mode::U(u) => u.clone(), _ => panic!("seal on sealed") };
        let h = u.verif_height().0;
        if a.is_some() {
            let id = CoinID::proposer_reward(BlockHeight(h));
            self.tables.reward.insert(h, id.txhash.0);
            self.dict.coin(id);
            self.dict.cov(a.unwrap().reward_dest);
        }
        let res = catch_unwind(AssertUnwindSafe(move || { let s = u.seal(a); let hd = s.header(); (s, hd) }));
        match res {
            Ok((s, hd)) => {
                self.mode = Mode::S(s);
                self.note_header(&hd);
                self.push_step(format!("OpSeal {} {} (Some {})", action(&a), roots_of(&hd), header(&hd)), 0, &format!("seal({})", a.map(|x| x.fee_multiplier_delta.to_string()).unwrap_or("-".into())));
                0
            }
            Err(p) => {
                self.violates.insert("C09".into(), format!("seal panicked at step {}: {}", self.steps.len(), crate::panic_msg(&p)));
                self.push_step(format!("OpSeal {} {} None", action(&a), roots_zero()), 100, "seal(panic)");
                100
            }
        }
    }

    pub fn op_next(&mut self) {
        let s = match &self.mode { Mode::S(s) => s.clone(), _ => panic!("next on unsealed") };
        let hd = s.header();
        self.dict.height(s.verif_inner().verif_height().0 + 1);
        let u = s.next_unsealed();
        self.mode = Mode::U(u);
        self.push_step(format!("OpNext {}", header(&hd)), 0, "next");
    }

    pub fn op_restart(&mut self) {
        let s = match &self.mode { Mode::S(s) => s.clone(), _ => panic!("restart on unsealed") };
        let blk = s.to_block();
        let txs: Vec<Transaction> = blk.transactions.iter().cloned().collect();
        let names = self.txlist(&txs);
        let restored = SealedState::from_block(&blk, &s.raw_stakes(), &self.db);
        self.mode = Mode::S(restored);
        self.push_step(format!("OpRestart {} {}", header(&blk.header), names), 0, "restart");
    }

    pub fn op_confirm(&mut self, signers: &[(usize, bool)]) {
        let s = match &self.mode { Mode::S(s) => s.clone(), _ => panic!("confirm on unsealed") };
        let hh = s.header().hash();
        self.note_header(&s.header());
        let mut proof: ConsensusProof = BTreeMap::new();
        for (k, good) in signers {
            let mut sig = self.keys.sk[*k].sign(&hh.0);
            if !*good { sig[5] ^= 0x40; }
            proof.insert(self.keys.pk[*k], sig.into());
        }
        for (k, sg) in proof.iter() { self.tables.ed.push(((*k, hh, sg.to_vec()), k.verify(&hh.0, sg))); }
        let res = catch_unwind(AssertUnwindSafe(|| s.confirm(proof.clone()).is_some()));
        let plist: Vec<(Ed25519PK, Vec<u8>)> = proof.iter().map(|(k, v)| (*k, v.to_vec())).collect();
        let pstr = cf::list(&plist, |(k, v)| format!("({}, {})", U256::from_be_bytes(k.0), cf::bytes(v)));
        match res {
            Ok(b) => self.push_step(format!("OpConfirm {} {} {}", hn(&hh), pstr, b), 0, &format!("confirm={}", b)),
            Err(p) => { self.violates.insert("C09".into(), format!("confirm panicked: {}", crate::panic_msg(&p))); self.push_step("OpJump".into(), 100, "confirm(panic)") }
        }
    }

    /// builds a block on a copy of the current sealed state, optionally mutates it, applies it with apply_block
    pub fn op_apply_block(&mut self, txs: &[Transaction], a: Option<ProposerAction>, mutate: u32, r: &mut Rng) -> u32 {
        let parent = match &self.mode { Mode::S(s) => s.clone(), _ => panic!("apply_block on unsealed") };
        let ph = parent.header();
        let h = parent.verif_inner().verif_height().0 + 1;
        self.dict.height(h);
        for t in txs { self.txname(t); }
        if a.is_some() { let id = CoinID::proposer_reward(BlockHeight(h)); self.tables.reward.insert(h, id.txhash.0); self.dict.coin(id); self.dict.cov(a.unwrap().reward_dest); }
        // honest lineage
        let built = catch_unwind(AssertUnwindSafe(|| {
            let mut u = parent.next_unsealed();
            match u.apply_tx_batch(txs) { Ok(()) => Some(u.seal(a).to_block()), Err(_) => None }
        }));
        let mut blk = match built { Ok(Some(b)) => b, _ => return 999 };
        // single-field mutations
        let mut what = "honest".to_string();
        match mutate {
            0 => {}
            1 => { blk.header.fee_pool.0 ^= 1; what = "fee_pool".into() }
            2 => { blk.header.fee_multiplier = blk.header.fee_multiplier.wrapping_add(1); what = "fee_multiplier".into() }
            3 => { blk.header.dosc_speed += 1; what = "dosc_speed".into() }
            4 => { blk.header.coins_hash.0[0] ^= 1; what = "coins_hash".into() }
            5 => { blk.header.pools_hash.0[0] ^= 1; what = "pools_hash".into() }
            6 => { blk.header.stakes_hash.0[0] ^= 1; what = "stakes_hash".into() }
            7 => { blk.header.transactions_hash.0[0] ^= 1; what = "transactions_hash".into() }
            8 => { blk.header.history_hash.0[0] ^= 1; what = "history_hash".into() }
            9 => { blk.header.previous.0[0] ^= 1; what = "previous".into() }
            10 => { blk.header.height.0 += 1; what = "height".into() }
            11 => { blk.header.network = if blk.header.network == NetID::Custom02 { NetID::Custom03 } else { NetID::Custom02 }; what = "network".into() }
            12 => { if let Some(t) = blk.transactions.iter().next().cloned() { blk.transactions.remove(&t); what = "drop tx".into() } else { what = "drop tx (none)".into() } }
            13 => { blk.proposer_action = match blk.proposer_action { None => Some(ProposerAction { fee_multiplier_delta: 0, reward_dest: Address(HashVal::default()) }), Some(_) => None }; what = "toggle action".into() }
            14 => { if let Some(pa) = blk.proposer_action.as_mut() { pa.fee_multiplier_delta = pa.fee_multiplier_delta.wrapping_add(64); what = "delta".into() } }
            15 => { if let Some(pa) = blk.proposer_action.as_mut() { pa.reward_dest.0 .0[0] ^= 1; self.dict.cov(pa.reward_dest); what = "reward_dest".into() } }
            _ => { if let Some(t) = blk.transactions.iter().next().cloned() { blk.transactions.remove(&t); let mut t2 = t.clone(); t2.sigs.push(Bytes::from(r.bytes(3))); blk.transactions.insert(t2); what = "tx sigs".into() } }
        }
        let order: Vec<Transaction> = blk.transactions.iter().cloned().collect();
        let names = self.txlist(&order);
        // roots of the header the implementation recomputes (same public calls, same order)
        let recomputed = catch_unwind(AssertUnwindSafe(|| {
            let mut u = parent.next_unsealed();
            match u.apply_tx_batch(&order) { Ok(()) => Some(u.seal(blk.proposer_action).header()), Err(_) => None }
        }));
        let rr = match &recomputed { Ok(Some(h)) => roots_of(h), _ => roots_zero() };
        if let Some(hdr) = self.last_header_of(&parent) { self.note_header(&hdr); }
        self.note_header(&ph);
        { // oracles for covenants run inside apply_block
            let saved = std::mem::replace(&mut self.mode, Mode::U(parent.next_unsealed()));
            self.collect_vm_oracles(&order, &ph);
            self.mode = saved;
        }
        let res = catch_unwind(AssertUnwindSafe(|| parent.apply_block(&blk)));
        let code = match res {
            Ok(Ok(s)) => { self.note_header(&s.header()); self.mode = Mode::S(s); 0 }
            Ok(Err(e)) => err_code(&e),
            Err(p) => { self.violates.insert("C09".into(), format!("apply_block panicked: {}", crate::panic_msg(&p))); 100 }
        };
        if mutate == 0 && code != 0 { self.violates.insert("C06".into(), format!("honest block rejected with {}", code)); }
        if mutate != 0 && code == 0 && !what.contains("(none)") && what != "honest" {
            let cls = if what == "delta" { "F17" } else { "" };
            if !cls.is_empty() { self.class.push(cls.into()); }
            self.violates.insert("C06".into(), format!("block with mutated {} accepted", what));
        }
        self.push_step(format!("OpApplyBlock {} {} {} {} {}", header(&ph), header(&blk.header), names, action(&blk.proposer_action), rr), code, &format!("apply_block({})", what));
        code
    }
    fn last_header_of(&self, s: &SealedState<InMemoryCas>) -> Option<Header> { Some(s.header()) }

    pub fn coq(&mut self) -> String {
        let t = &self.tables;
        let liq: Vec<(String, String)> = self.dict.pools.values().map(|k| (poolkey_code(k), match k.liq_token_denom() { Denom::Custom(h) => hn(&h.0), _ => "0".into() })).collect();
        let mut liq = liq; liq.sort(); liq.dedup();
        let tables = format!("{{| ot_hashes := {}; ot_sigs := {}; ot_reward := {}; ot_marker := {}; ot_liq := {}; ot_hdr := {}; ot_melpow := {}; ot_ed := {} |}}",
            cf::list(&t.hashes, |(a, b)| format!("({}, {})", cf::bytes(a), cf::bytes(b))),
            cf::list(&t.sigs, |((a, b, c), r)| format!("(({}, {}, {}), {})", cf::bytes(a), cf::bytes(b), cf::bytes(c), r)),
            cf::list(&t.reward.iter().collect::<Vec<_>>(), |(h, v)| format!("({}, {})", h, hn(v))),
            cf::list(&t.marker.iter().collect::<Vec<_>>(), |(h, v)| format!("({}, {})", hn(h), hn(v))),
            cf::list(&liq, |(a, b)| format!("({}, {})", a, b)),
            cf::list(&t.hdr, |h| format!("({}, {})", header(h), hn(&h.hash()))),
            cf::list(&t.melpow, |((p, s, c, d), v)| format!("(({}, {}, {}, {}), {})", p, hn(s), coin_key(c), d, v)),
            cf::list(&t.ed, |((k, m, s), r)| format!("(({}, {}, {}), {})", U256::from_be_bytes(k.0), hn(m), cf::bytes(s), r)));
        let mut s = self.defs.join("\n");
        s.push_str(&format!("\nDefinition {} : scenario := {{| sc_tables := {};\n sc_init := {};\n sc_steps := [\n{}\n] |}}.\n", self.name, tables, self.init, self.steps.join(";\n")));
        s
    }

    pub fn meta(&self) -> String {
        let viol: Vec<String> = self.violates.iter().map(|(k, v)| format!("{:?}:{:?}", k, v)).collect();
        let cnt: Vec<String> = self.counters.iter().map(|(k, v)| format!("{:?}:{}", k, v)).collect();
        let accepted = self.counters.get("code_0").copied().unwrap_or(0);
        let rejected: u64 = self.counters.iter().filter(|(k, _)| k.starts_with("code_") && *k != "code_0").map(|(_, v)| *v).sum();
        format!("{{\"scenario\":{:?},\"ops\":{:?},\"counters\":{{{}}},\"violates\":{{{}}},\"class\":[{}],\"nontrivial\":{},\"unknown_keys\":{:?}}}",
            self.name, self.log, cnt.join(","), viol.join(","), self.class.iter().map(|c| format!("{:?}", c)).collect::<Vec<_>>().join(","),
            accepted > 2 && rejected > 0, self.unknown_keys.iter().take(3).collect::<Vec<_>>())
    }
}

fn clone_dump(d: &Dump) -> Dump {
    Dump { network: d.network, height: d.height, history: d.history.clone(), coins: d.coins.clone(), counts: d.counts.clone(), txs: d.txs.clone(),
        fee_pool: d.fee_pool, mult: d.mult, tips: d.tips, speed: d.speed, pools: d.pools.clone(), stakes: d.stakes.clone(), unknown: vec![] }
}

// ---------------------------------------------------------------- transaction generator
pub struct Wallet { pub coins: Vec<(CoinID, CoinDataHeight)> }

impl Scenario {
    pub fn wallet(&mut self) -> Wallet {
        let d = dump(self.ustate(), &self.dict);
        let coins = d.coins.into_iter().filter(|(_, c)| self.covs.contains_key(&c.coin_data.covhash)).collect();
        Wallet { coins }
    }
    fn my_addr(&self, r: &mut Rng, spendable: bool) -> Address {
        let mut v: Vec<(&Address, &CovInfo)> = self.covs.iter().collect();
        v.sort_by_key(|(a, _)| **a);
        let good: Vec<Address> = v.iter().filter(|(_, c)| matches!(c.kind, CovKind::AlwaysTrue | CovKind::SigNew(_) | CovKind::SigLegacy(_))).map(|(a, _)| **a).collect();
        if spendable || r.chance(4, 5) { *r.pick(&good) } else { *v[r.below(v.len() as u64) as usize].0 }
    }

    /// completes a transaction: covenants for its inputs, fee at min_fee + tip, MEL change, signatures
    pub fn finish_tx(&mut self, r: &mut Rng, mut t: Transaction, inputs: &[(CoinID, CoinDataHeight)], fee_adj: i128, tip: u128) -> Transaction {
        t.inputs = inputs.iter().map(|(i, _)| *i).collect();
        let mut seen = HashSet::new();
        t.covenants = vec![];
        for (_, c) in inputs {
            if seen.insert(c.coin_data.covhash) {
                if let Some(ci) = self.covs.get(&c.coin_data.covhash) { t.covenants.push(Bytes::from(ci.bytes.clone())); }
            }
        }
        let mult = self.ustate().verif_fee_multiplier();
        let in_mel: u128 = inputs.iter().filter(|(_, c)| c.coin_data.denom == Denom::Mel).map(|(_, c)| c.coin_data.value.0).sum();
        let out_mel: u128 = t.outputs.iter().filter(|o| o.denom == Denom::Mel).map(|o| o.value.0).sum();
        // placeholder signatures so that the serialized length is final
        t.sigs = inputs.iter().map(|_| Bytes::from(vec![0u8; 64])).collect();
        let change_addr = self.my_addr(r, true);
        let mut fee;
        if t.kind != TxKind::Faucet && in_mel > out_mel {
            t.outputs.push(CoinData { covhash: change_addr, value: CoinValue(0), denom: Denom::Mel, additional_data: Bytes::new() });
            let ci = t.outputs.len() - 1;
            fee = 0u128;
            for _ in 0..4 {
                t.fee = CoinValue(fee);
                t.outputs[ci].value = CoinValue((in_mel - out_mel).saturating_sub(fee));
                let min = t.base_fee(mult, 0, melvm::covenant_weight_from_bytes).0;
                fee = (min + tip).min(in_mel - out_mel);
            }
            t.fee = CoinValue(((fee as i128) + fee_adj).max(0) as u128);
            t.outputs[ci].value = CoinValue((in_mel - out_mel).saturating_sub(t.fee.0));
            if t.outputs[ci].value.0 == 0 && r.chance(1, 2) { t.outputs.remove(ci); }
        } else if t.kind == TxKind::Faucet {
            let min = { t.fee = CoinValue(1 << 30); t.base_fee(mult, 0, melvm::covenant_weight_from_bytes).0 };
            t.fee = CoinValue(((min + tip) as i128 + fee_adj).max(0) as u128);
        }
        // sign: slot i for input i (new-style), slot 0 for legacy
        let h = t.hash_nosigs();
        let mut sigs: Vec<Bytes> = vec![];
        for (_, c) in inputs.iter() {
            let k = match self.covs.get(&c.coin_data.covhash).map(|c| &c.kind) { Some(CovKind::SigNew(k)) | Some(CovKind::SigLegacy(k)) => Some(*k), _ => None };
            sigs.push(match k { Some(k) => Bytes::from(self.keys.sk[k].sign(&h.0)), None => Bytes::new() });
        }
        // legacy covenants read slot 0: if any input is legacy, its signature goes first
        if let Some(pos) = inputs.iter().position(|(_, c)| matches!(self.covs.get(&c.coin_data.covhash).map(|c| &c.kind), Some(CovKind::SigLegacy(_)))) { sigs.swap(0, pos); }
        while sigs.last().map(|s| s.is_empty()).unwrap_or(false) { sigs.pop(); }
        t.sigs = sigs;
        t
    }

    fn pick_inputs(&self, r: &mut Rng, w: &Wallet, n: usize, need_mel: bool, exclude: &HashSet<CoinID>) -> Vec<(CoinID, CoinDataHeight)> {
        let stakes = self.ustate().verif_stakes();
        let mut pool: Vec<&(CoinID, CoinDataHeight)> = w.coins.iter().filter(|(id, c)| !exclude.contains(id)
            && stakes.get_stake(id.txhash).is_none()
            && matches!(self.covs.get(&c.coin_data.covhash).map(|x| &x.kind), Some(CovKind::AlwaysTrue) | Some(CovKind::SigNew(_)) | Some(CovKind::SigLegacy(_)) | Some(CovKind::ValueAtLeast(_)))).collect();
        let mut out = vec![];
        if need_mel {
            let mels: Vec<usize> = pool.iter().enumerate().filter(|(_, (_, c))| c.coin_data.denom == Denom::Mel && c.coin_data.value.0 > 100_000).map(|(i, _)| i).collect();
            if mels.is_empty() { return vec![]; }
            let i = *r.pick(&mels);
            out.push(pool.remove(i).clone());
        }
        while out.len() < n && !pool.is_empty() { let i = r.below(pool.len() as u64) as usize; out.push(pool.remove(i).clone()); }
        // at most one legacy-signature input (they all read slot 0)
        let mut seen_legacy = false;
        out.retain(|(_, c)| { if matches!(self.covs.get(&c.coin_data.covhash).map(|x| &x.kind), Some(CovKind::SigLegacy(_))) { if seen_legacy { return false; } seen_legacy = true; } true });
        out
    }

    fn split_outputs(&mut self, r: &mut Rng, inputs: &[(CoinID, CoinDataHeight)]) -> Vec<CoinData> {
        let mut per: BTreeMap<Denom, u128> = BTreeMap::new();
        for (_, c) in inputs { if c.coin_data.denom != Denom::Mel { *per.entry(c.coin_data.denom).or_insert(0) += c.coin_data.value.0; } }
        let mut outs = vec![];
        for (d, v) in per {
            let parts = r.range(1, 3);
            let mut left = v;
            for p in 0..parts {
                let x = if p == parts - 1 { left } else { r.below128(left + 1) };
                left -= x;
                let a = self.my_addr(r, false);
                outs.push(CoinData { covhash: a, value: CoinValue(x), denom: d, additional_data: if r.chance(1, 5) { Bytes::from(r.bytes(3)) } else { Bytes::new() } });
            }
        }
        outs
    }

    pub fn gen_normal(&mut self, r: &mut Rng, w: &Wallet, exclude: &HashSet<CoinID>) -> Option<Transaction> {
        let n = r.range(1, 3) as usize;
        let inputs = self.pick_inputs(r, w, n, true, exclude);
        if inputs.is_empty() { return None; }
        let mut t = Transaction::new(TxKind::Normal);
        t.outputs = self.split_outputs(r, &inputs);
        let in_mel: u128 = inputs.iter().filter(|(_, c)| c.coin_data.denom == Denom::Mel).map(|(_, c)| c.coin_data.value.0).sum();
        // a few MEL outputs (leave plenty for the fee)
        let k = r.below(3);
        let mut budget = in_mel / 2;
        for _ in 0..k { let v = r.below128(budget / 2 + 1); budget -= v; let a = if r.chance(1, 12) { Address::coin_destroy() } else { self.my_addr(r, false) }; t.outputs.push(CoinData { covhash: a, value: CoinValue(v), denom: Denom::Mel, additional_data: Bytes::new() }); }
        if r.chance(1, 6) { let a = self.my_addr(r, true); t.outputs.push(CoinData { covhash: a, value: CoinValue(*r.pick(&[1u128, 1000, 1 << 60])), denom: Denom::NewCustom, additional_data: Bytes::new() }); }
        if r.chance(1, 8) { let n = r.range(1, 40) as usize; t.data = Bytes::from(r.bytes(n)); }
        let tip = *r.pick(&[0u128, 0, 1, 1000]);
        Some(self.finish_tx(r, t, &inputs, 0, tip))
    }

    pub fn gen_faucet(&mut self, r: &mut Rng) -> Transaction {
        let mut t = Transaction::new(TxKind::Faucet);
        let n = r.range(1, 3);
        for _ in 0..n {
            let a = self.my_addr(r, true);
            t.outputs.push(CoinData { covhash: a, value: CoinValue(*r.pick(&[1u128 << 40, 1 << 50, 5_000_000, 1 << 90])), denom: *r.pick(&[Denom::Mel, Denom::Mel, Denom::Sym, Denom::Erg]), additional_data: Bytes::new() });
        }
        t.data = Bytes::from(r.bytes(8));
        self.finish_tx(r, t, &[], 0, 0)
    }

    fn pool_denoms(&self, r: &mut Rng, w: &Wallet) -> (Denom, Denom) {
        let mut ds: Vec<Denom> = w.coins.iter().map(|(_, c)| c.coin_data.denom).filter(|d| *d != Denom::Mel).collect();
        ds.sort(); ds.dedup();
        let other = if ds.is_empty() || r.chance(1, 3) { *r.pick(&[Denom::Sym, Denom::Erg]) } else { *r.pick(&ds) };
        if r.chance(1, 8) { (Denom::Erg, Denom::Sym) } else { (Denom::Mel, other) }
    }

    pub fn gen_swap(&mut self, r: &mut Rng, w: &Wallet, exclude: &HashSet<CoinID>) -> Option<Transaction> {
        let (a, b) = self.pool_denoms(r, w);
        let key = PoolKey::new(a, b);
        let from = if r.chance(1, 2) { key.left() } else { key.right() };
        let mut inputs = self.pick_inputs(r, w, 1, true, exclude);
        if inputs.is_empty() { return None; }
        if from != Denom::Mel {
            match w.coins.iter().find(|(id, c)| c.coin_data.denom == from && !exclude.contains(id) && !inputs.iter().any(|(i, _)| i == id) && matches!(self.covs.get(&c.coin_data.covhash).map(|x| &x.kind), Some(CovKind::AlwaysTrue) | Some(CovKind::SigNew(_)))) {
                Some(c) => inputs.push(c.clone()), None => return None,
            }
        }
        let have: u128 = inputs.iter().filter(|(_, c)| c.coin_data.denom == from).map(|(_, c)| c.coin_data.value.0).sum();
        let amt = match r.below(6) { 0 => 1, 1 => have / 2, 2 => (have / 3).min(1 << 30), 3 => have.min(1000), _ => (have / 4).max(1) };
        let amt = if from == Denom::Mel { amt.min(have / 2) } else { amt.min(have) };
        let mut t = Transaction::new(TxKind::Swap);
        let dest = self.my_addr(r, true);
        t.outputs.push(CoinData { covhash: dest, value: CoinValue(amt), denom: from, additional_data: Bytes::new() });
        if from != Denom::Mel && have > amt { let a2 = self.my_addr(r, true); t.outputs.push(CoinData { covhash: a2, value: CoinValue(have - amt), denom: from, additional_data: Bytes::new() }); }
        // other non-MEL inputs pass through
        let mut rest = self.split_outputs(r, &inputs.iter().filter(|(_, c)| c.coin_data.denom != from).cloned().collect::<Vec<_>>());
        t.outputs.append(&mut rest);
        t.data = key.to_bytes();
        Some(self.finish_tx(r, t, &inputs, 0, 0))
    }

    pub fn gen_deposit(&mut self, r: &mut Rng, w: &Wallet, exclude: &HashSet<CoinID>) -> Option<Transaction> {
        let (a, b) = self.pool_denoms(r, w);
        let key = PoolKey::new(a, b);
        let mut inputs = self.pick_inputs(r, w, 1, true, exclude);
        if inputs.is_empty() { return None; }
        for d in [key.left(), key.right()] {
            if d == Denom::Mel { continue; }
            match w.coins.iter().find(|(id, c)| c.coin_data.denom == d && c.coin_data.value.0 > 0 && !exclude.contains(id) && !inputs.iter().any(|(i, _)| i == id) && matches!(self.covs.get(&c.coin_data.covhash).map(|x| &x.kind), Some(CovKind::AlwaysTrue) | Some(CovKind::SigNew(_)))) {
                Some(c) => inputs.push(c.clone()), None => return None,
            }
        }
        let have = |d: Denom| -> u128 { inputs.iter().filter(|(_, c)| c.coin_data.denom == d).map(|(_, c)| c.coin_data.value.0).sum() };
        let amount = |r: &mut Rng, d: Denom, h: u128| -> u128 { let m = if d == Denom::Mel { h / 2 } else { h }; match r.below(5) { 0 => m.min(4), 1 => m.min(1_000_000), 2 => m / 2, 3 => m.min(9), _ => (m / 3).max(1).min(m) } };
        let (hl, hr) = (have(key.left()), have(key.right()));
        let (vl, vr) = (amount(r, key.left(), hl), amount(r, key.right(), hr));
        let mut t = Transaction::new(TxKind::LiqDeposit);
        let dest = self.my_addr(r, true);
        t.outputs.push(CoinData { covhash: dest, value: CoinValue(vl), denom: key.left(), additional_data: Bytes::new() });
        t.outputs.push(CoinData { covhash: dest, value: CoinValue(vr), denom: key.right(), additional_data: Bytes::new() });
        for (d, h, v) in [(key.left(), hl, vl), (key.right(), hr, vr)] {
            if d != Denom::Mel && h > v { let a2 = self.my_addr(r, true); t.outputs.push(CoinData { covhash: a2, value: CoinValue(h - v), denom: d, additional_data: Bytes::new() }); }
        }
        t.data = key.to_bytes();
        Some(self.finish_tx(r, t, &inputs, 0, 0))
    }

    pub fn gen_withdraw(&mut self, r: &mut Rng, w: &Wallet, exclude: &HashSet<CoinID>) -> Option<Transaction> {
        // find a liquidity token we hold
        let keys: Vec<PoolKey> = self.dict.pools.values().cloned().collect();
        let mut cands = vec![];
        for (id, c) in &w.coins {
            if exclude.contains(id) { continue; }
            if !matches!(self.covs.get(&c.coin_data.covhash).map(|x| &x.kind), Some(CovKind::AlwaysTrue) | Some(CovKind::SigNew(_))) { continue; }
            for k in &keys { if c.coin_data.denom == k.liq_token_denom() && c.coin_data.value.0 > 0 { cands.push((*id, c.clone(), *k)); } }
        }
        if cands.is_empty() { return None; }
        let (id, c, key) = r.pick(&cands).clone();
        let mut inputs = self.pick_inputs(r, w, 1, true, exclude);
        if inputs.is_empty() { return None; }
        inputs.push((id, c.clone()));
        let have = c.coin_data.value.0;
        let amt = match r.below(4) { 0 => have, 1 => 1, 2 => have / 2, _ => have.min(1000) }.max(1).min(have);
        let mut t = Transaction::new(TxKind::LiqWithdraw);
        let dest = self.my_addr(r, true);
        t.outputs.push(CoinData { covhash: dest, value: CoinValue(amt), denom: c.coin_data.denom, additional_data: Bytes::new() });
        t.data = key.to_bytes();
        // LiqWithdraw requests must have exactly one output: burn the MEL change into the fee, the rest of the token is lost
        let mult = self.ustate().verif_fee_multiplier();
        let mut t = self.finish_tx(r, t, &inputs, 0, 0);
        if t.outputs.len() > 1 && r.chance(3, 4) {
            let change = t.outputs.pop().unwrap();
            t.fee = CoinValue(t.fee.0 + change.value.0);
            let _ = mult;
            // re-sign (the hash changed)
            let ins: Vec<(CoinID, CoinDataHeight)> = inputs.clone();
            let h = t.hash_nosigs();
            let mut sigs: Vec<Bytes> = vec![];
            for (_, c) in ins.iter() {
                let k = match self.covs.get(&c.coin_data.covhash).map(|c| &c.kind) { Some(CovKind::SigNew(k)) | Some(CovKind::SigLegacy(k)) => Some(*k), _ => None };
                sigs.push(match k { Some(k) => Bytes::from(self.keys.sk[k].sign(&h.0)), None => Bytes::new() });
            }
            if let Some(pos) = ins.iter().position(|(_, c)| matches!(self.covs.get(&c.coin_data.covhash).map(|c| &c.kind), Some(CovKind::SigLegacy(_)))) { sigs.swap(0, pos); }
            t.sigs = sigs;
        }
        Some(t)
    }

    pub fn gen_stake(&mut self, r: &mut Rng, w: &Wallet, exclude: &HashSet<CoinID>) -> Option<Transaction> {
        let mut inputs = self.pick_inputs(r, w, 1, true, exclude);
        if inputs.is_empty() { return None; }
        let sym = w.coins.iter().find(|(id, c)| c.coin_data.denom == Denom::Sym && c.coin_data.value.0 > 0 && !exclude.contains(id) && !inputs.iter().any(|(i, _)| i == id) && matches!(self.covs.get(&c.coin_data.covhash).map(|x| &x.kind), Some(CovKind::AlwaysTrue) | Some(CovKind::SigNew(_))))?.clone();
        inputs.push(sym.clone());
        let have = sym.1.coin_data.value.0;
        let staked = (have / 2).max(1);
        let epoch = self.ustate().verif_height().0 / STAKE_EPOCH;
        let (es, ee) = match r.below(6) { 0 => (epoch, epoch + 2), 1 => (epoch + 1, epoch + 1), 2 => (epoch + 2, epoch + 1), _ => (epoch + 1, epoch + 1 + r.range(1, 3)) };
        let declared = if r.chance(1, 6) { staked + 1 } else { staked };
        let doc = StakeDoc { pubkey: self.keys.pk[r.below(3) as usize], e_start: es, e_post_end: ee, syms_staked: CoinValue(declared) };
        let mut t = Transaction::new(TxKind::Stake);
        let dest = self.my_addr(r, true);
        let d0 = if r.chance(1, 10) { Denom::Mel } else { Denom::Sym };
        t.outputs.push(CoinData { covhash: dest, value: CoinValue(if d0 == Denom::Sym { staked } else { 5 }), denom: d0, additional_data: Bytes::new() });
        if d0 == Denom::Sym && have > staked { let a2 = self.my_addr(r, true); t.outputs.push(CoinData { covhash: a2, value: CoinValue(have - staked), denom: Denom::Sym, additional_data: Bytes::new() }); }
        if d0 != Denom::Sym { let a2 = self.my_addr(r, true); t.outputs.push(CoinData { covhash: a2, value: CoinValue(have), denom: Denom::Sym, additional_data: Bytes::new() }); }
        t.data = if r.chance(1, 10) { Bytes::from(r.bytes(5)) } else { Bytes::from(doc.stdcode()) };
        Some(self.finish_tx(r, t, &inputs, 0, 0))
    }

    /// adversarial rewrites of an otherwise valid transaction
    pub fn mutate_tx(&mut self, r: &mut Rng, t: &Transaction, w: &Wallet) -> Transaction {
        let mut m = t.clone();
        match r.below(14) {
            0 => { if m.fee.0 > 0 { m.fee.0 -= 1; if let Some(o) = m.outputs.iter_mut().rev().find(|o| o.denom == Denom::Mel) { o.value.0 += 1; } } }
            1 => { m.inputs.push(CoinID::new(TxHash(tmelcrypt::hash_single(&r.bytes(4))), 0)); }
            2 => { if let Some(i) = m.inputs.first().cloned() { m.inputs.push(i); } }
            3 => { m.covenants.clear(); }
            4 => { if let Some(s) = m.sigs.first_mut() { let mut v = s.to_vec(); if !v.is_empty() { v[0] ^= 1; } *s = Bytes::from(v); } else { m.covenants.clear(); } }
            5 => { if let Some(o) = m.outputs.first_mut() { o.value.0 += 1; } }
            6 => { if let Some(o) = m.outputs.first_mut() { o.value = MAX_COINVAL + CoinValue(1); } }
            7 => { m.fee = MAX_COINVAL + CoinValue(1); }
            8 => { if let Some(o) = m.outputs.first_mut() { o.denom = Denom::Erg; } }
            9 => { if let Some((id, _)) = w.coins.iter().find(|(_, c)| matches!(self.covs.get(&c.coin_data.covhash).map(|x| &x.kind), Some(CovKind::Never) | Some(CovKind::Undecodable) | Some(CovKind::IndexZero) | Some(CovKind::HeightLock(_)))) { m.inputs.push(*id); let c = w.coins.iter().find(|(i, _)| i == id).unwrap().1.clone(); if let Some(ci) = self.covs.get(&c.coin_data.covhash) { m.covenants.push(Bytes::from(ci.bytes.clone())); } } else { m.covenants.clear(); } }
            10 => { m.covenants.push(Bytes::from(vec![0xff, 0xff])); }
            11 => { let o = CoinData { covhash: self.my_addr(r, true), value: CoinValue(0), denom: Denom::Mel, additional_data: Bytes::new() }; for _ in 0..(256 - m.outputs.len().min(255)) { m.outputs.push(o.clone()); } }
            12 => { m.sigs.insert(0, Bytes::from(vec![1, 2, 3])); }
            _ => { m.kind = *r.pick(&[TxKind::Normal, TxKind::Swap, TxKind::LiqDeposit, TxKind::LiqWithdraw, TxKind::Stake, TxKind::Faucet, TxKind::DoscMint]); }
        }
        m
    }

    pub fn gen_tx(&mut self, r: &mut Rng, w: &Wallet, exclude: &HashSet<CoinID>) -> Option<Transaction> {
        let net = self.ustate().verif_network();
        let c = r.below(100);
        let t = if c < 35 { self.gen_normal(r, w, exclude) }
            else if c < 50 { if net == NetID::Mainnet && r.chance(9, 10) { self.gen_normal(r, w, exclude) } else { Some(self.gen_faucet(r)) } }
            else if c < 65 { self.gen_swap(r, w, exclude) }
            else if c < 78 { self.gen_deposit(r, w, exclude) }
            else if c < 88 { self.gen_withdraw(r, w, exclude) }
            else { self.gen_stake(r, w, exclude) };
        t.or_else(|| if net != NetID::Mainnet { Some(self.gen_faucet(r)) } else { self.gen_normal(r, w, exclude) })
    }
}

fn gen_action(r: &mut Rng, sc: &mut Scenario) -> Option<ProposerAction> {
    if r.chance(1, 4) { return None; }
    let d = match r.below(6) { 0 => -128i8, 1 => 127, 2 => 0, 3 => -1, 4 => 1, _ => r.next() as i8 };
    Some(ProposerAction { fee_multiplier_delta: d, reward_dest: sc.my_addr(r, true) })
}

pub fn run_scenario(name: &str, r: &mut Rng, nblocks: usize) -> Scenario {
    let net = *r.pick(&[NetID::Custom02, NetID::Custom02, NetID::Custom08, NetID::Testnet, NetID::Mainnet, NetID::Custom05]);
    let mult = *r.pick(&[1_000_000u128, 1000, 65536, 200, 130, 1 << 40, 256]);
    let fee_pool = *r.pick(&[0u128, 1 << 20, 6_553_600_000_000, 1 << 64]);
    let mut sc = Scenario::new(name, r, net, mult, fee_pool);
    for _b in 0..nblocks {
        let via_block = r.chance(1, 4) && matches!(sc.mode, Mode::S(_));
        if via_block {
            // transactions generated against the next unsealed state
            let parent = match &sc.mode { Mode::S(s) => s.clone(), _ => unreachable!() };
            let saved = std::mem::replace(&mut sc.mode, Mode::U(parent.next_unsealed()));
            let w = sc.wallet();
            let mut ex = HashSet::new();
            let mut txs = vec![];
            for _ in 0..r.range(0, 3) { if let Some(t) = sc.gen_tx(r, &w, &ex) { for i in &t.inputs { ex.insert(*i); } txs.push(t); } }
            sc.mode = saved;
            let a = gen_action(r, &mut sc);
            let mutate = if r.chance(1, 2) { 0 } else { r.range(1, 16) as u32 };
            let code = sc.op_apply_block(&txs, a, mutate, r);
            if code == 999 { sc.bump("block_not_buildable"); }
            if code != 0 { // fall back so the history goes on
                let c2 = sc.op_apply_block(&[], None, 0, r);
                if c2 != 0 { break; }
            }
        } else {
            if let Mode::S(_) = sc.mode { sc.op_next(); }
            let nb = r.range(1, 3);
            for _ in 0..nb {
                let w = sc.wallet();
                let mut ex = HashSet::new();
                let mut txs: Vec<Transaction> = vec![];
                let n = r.range(1, 4);
                for _ in 0..n {
                    if let Some(t) = sc.gen_tx(r, &w, &ex) { for i in &t.inputs { ex.insert(*i); } txs.push(t); }
                }
                // a dependent transaction spending an output of the batch
                if r.chance(1, 3) && !txs.is_empty() {
                    let parent = r.pick(&txs).clone();
                    let h = parent.hash_nosigs();
                    let height = sc.ustate().verif_height();
                    let vw = Wallet { coins: parent.outputs.iter().enumerate().filter(|(_, o)| o.covhash != Address::coin_destroy()).map(|(i, o)| { let mut cd = o.clone(); if cd.denom == Denom::NewCustom { cd.denom = Denom::Custom(h); } (CoinID::new(h, i as u8), CoinDataHeight { coin_data: cd, height }) }).collect() };
                    if let Some(t) = sc.gen_normal(r, &vw, &HashSet::new()) { if r.chance(1, 2) { txs.push(t); } else { txs.insert(0, t); } sc.bump("dependent_tx"); }
                }
                if r.chance(1, 4) && !txs.is_empty() { let i = r.below(txs.len() as u64) as usize; let m = sc.mutate_tx(r, &txs[i].clone(), &w); txs[i] = m; sc.bump("mutated_tx"); }
                if r.chance(1, 10) && !txs.is_empty() { let t = txs[0].clone(); txs.push(t); }
                // shuffle
                for i in (1..txs.len()).rev() { let j = r.below(i as u64 + 1) as usize; txs.swap(i, j); }
                let code = sc.op_batch(&txs);
                if code != 0 && txs.len() > 1 {
                    // retry the members one by one so the history keeps moving
                    for t in txs.iter().take(3) { sc.op_batch(std::slice::from_ref(t)); }
                }
            }
            let a = gen_action(r, &mut sc);
            if sc.op_seal(a) != 0 { break; }
            if r.chance(1, 3) { sc.op_restart(); }
            if r.chance(1, 3) { let mut signers: Vec<(usize, bool)> = vec![]; for k in 0..3 { if r.chance(1, 2) { signers.push((k, r.chance(9, 10))); } } sc.op_confirm(&signers); }
        }
    }
    sc
}

pub fn run(tier: &str, seed: u64, em: &mut Emitter) {
    let mut r = Rng::new(seed ^ 0x57F);
    let n = if tier == "thorough" { 600 } else { 48 };
    let per_file = 6;
    let mut st = Stats::default();
    let mut file_defs: Vec<String> = vec![];
    let mut file_names: Vec<String> = vec![];
    let mut file_meta: Vec<String> = vec![];
    let mut k = 0;
    let flush = |em: &mut Emitter, k: usize, defs: &mut Vec<String>, names: &mut Vec<String>, metas: &mut Vec<String>| {
        if names.is_empty() { return; }
        let mut s = String::from("From MelVerif Require Import Cases.StfLib.\nOpen Scope N_scope.\n");
        s.push_str(&defs.join("\n"));
        s.push_str(&format!("\nEval vm_compute in (run_scenarios 0 [{}]).\n", names.join("; ")));
        em.raw_file(&format!("stf_{:03}", k), &s, metas.clone());
        defs.clear(); names.clear(); metas.clear();
    };
    for i in 0..n {
        let mut rr = r.fork();
        let name = format!("sc{}", i);
        let nblocks = rr.range(2, if tier == "thorough" { 8 } else { 5 }) as usize;
        let mut sc = run_scenario(&name, &mut rr, nblocks);
        for (c, v) in &sc.counters { st.add(c, *v); }
        st.add("steps", sc.steps.len() as u64);
        st.bump(&format!("net_{:?}", sc.ustate().verif_network()));
        if !sc.unknown_keys.is_empty() { st.bump("scenarios_with_unknown_smt_keys"); }
        file_defs.push(sc.coq());
        file_names.push(name);
        file_meta.push(sc.meta());
        if file_names.len() == per_file { flush(em, k, &mut file_defs, &mut file_names, &mut file_meta); k += 1; }
    }
    flush(em, k, &mut file_defs, &mut file_names, &mut file_meta);
    em.stats("stf", st);
}

//! `vm` stream: Covenant::debug_execute / Executor::step / weight against the model's run / weight.
use crate::coqfmt as cf;
use crate::out::{Emitter, Stats};
use crate::rng::Rng;
use ethnum::U256;
use melvm::opcode::OpCode;
use melvm::{Covenant, Value, VerifExecutor};
use std::collections::HashMap;
use std::panic::{catch_unwind, AssertUnwindSafe};

pub struct VmObs {
    pub result: Result<Option<Value>, String>, // Err = panic message
    pub steps: u64,
    pub weight: u128,
    pub calls: u64,
    pub bytes: Option<Vec<u8>>,
    pub hashes: Vec<(Vec<u8>, Vec<u8>)>,
    pub sigs: Vec<((Vec<u8>, Vec<u8>, Vec<u8>), bool)>,
    pub backedge: bool,
    pub max_stack_bytes: usize,
    pub btoi_bytes: usize,
    pub max_step_alloc: u64,
    pub max_step_op: String,
}

fn val_bytes(v: &Value) -> Option<Vec<u8>> { match v { Value::Bytes(b) => Some(b.clone().into()), _ => None } }

pub fn value_size(v: &Value) -> usize {
    match v {
        Value::Int(_) => 32,
        Value::Bytes(b) => b.len(),
        Value::Vector(vs) => { let vs: Vec<Value> = vs.clone().into(); 8 + vs.iter().map(value_size).sum::<usize>() }
    }
}

/// Runs the real executor step by step (through the cfg(melstf_verif) re-export), recording the oracle
/// queries the model will need, and cross-checks with Covenant::debug_execute.
pub fn observe(ops: &[OpCode], heap: &[(u16, Value)], step_cap: u64) -> VmObs {
    let cov = Covenant::from_ops(ops);
    melvm::opcode::VERIF_CAR_WEIGHT_CALLS.with(|c| c.set(0));
    let weight = cov.weight();
    let calls = melvm::opcode::VERIF_CAR_WEIGHT_CALLS.with(|c| c.get());
    let bytes = catch_unwind(AssertUnwindSafe(|| cov.to_bytes().to_vec())).ok();
    let hm: HashMap<u16, Value> = heap.iter().cloned().collect();
    let mut hashes = vec![];
    let mut sigs = vec![];
    let mut steps = 0u64;
    let mut backedge = false;
    let mut max_stack_bytes = 0usize;
    let mut btoi_bytes = 0usize;
    let mut max_step_alloc = 0u64;
    let mut max_step_op = String::new();
    let stepped = catch_unwind(AssertUnwindSafe(|| {
        let mut ex = VerifExecutor::new(ops.to_vec(), hm.clone());
        while ex.pc() < ops.len() {
            if steps >= step_cap { return Err("step cap".to_string()); }
            let pc = ex.pc();
            // record oracle queries before the instruction consumes its operands
            match &ops[pc] {
                OpCode::Hash(_) => {
                    if let Some(b) = ex.stack.last().and_then(val_bytes) {
                        if b.len() <= 70000 { hashes.push((b.clone(), tmelcrypt::hash_single(&b).0.to_vec())); }
                    }
                }
                OpCode::SigEOk(_) => {
                    let n = ex.stack.len();
                    if n >= 3 {
                        if let (Some(m), Some(pk), Some(sg)) = (val_bytes(&ex.stack[n - 1]), val_bytes(&ex.stack[n - 2]), val_bytes(&ex.stack[n - 3])) {
                            if pk.len() == 32 && sg.len() <= 64 {
                                let ok = tmelcrypt::Ed25519PK::from_bytes(&pk).map(|k| k.verify(&m, &sg)).unwrap_or(false);
                                sigs.push(((pk, m, sg), ok));
                            }
                        }
                    }
                }
                OpCode::BtoI => {
                    if let Some(Value::Bytes(b)) = ex.stack.last() { if b.len() > btoi_bytes { btoi_bytes = b.len(); } }
                }
                _ => {}
            }
            steps += 1;
            let a0 = crate::allocated();
            let r = ex.step();
            let da = crate::allocated() - a0;
            if da > max_step_alloc { max_step_alloc = da; max_step_op = cf::op(&ops[pc]); }
            if ex.pc() <= pc && r.is_some() { backedge = true; }
            if r.is_none() { return Ok(None); }
            let sz: usize = ex.stack.iter().map(value_size).sum();
            if sz > max_stack_bytes { max_stack_bytes = sz; }
        }
        Ok(ex.stack.pop())
    }));
    let result = match stepped {
        Ok(Ok(v)) => Ok(v),
        Ok(Err(e)) => Err(e),
        Err(p) => Err(format!("panic: {}", crate::panic_msg(&p))),
    };
    // cross-check with the public entry point
    if let Ok(r) = &result {
        let env: Vec<Value> = Vec::new();
        if heap.is_empty() {
            let direct = catch_unwind(AssertUnwindSafe(|| cov.debug_execute(&env)));
            match direct {
                Ok(d) => assert!(&d == r, "stepping and debug_execute disagree on {:?}", ops),
                Err(_) => panic!("debug_execute panicked where stepping did not: {:?}", ops),
            }
        }
    }
    VmObs { result, steps, weight, calls, bytes, hashes, sigs, backedge, max_stack_bytes, btoi_bytes, max_step_alloc, max_step_op }
}

pub fn case_line(ops: &[OpCode], heap: &[(u16, Value)], o: &VmObs) -> String {
    let res = match &o.result { Ok(v) => v.clone(), Err(_) => None };
    format!("{{| vc_prog := {}; vc_heap := {}; vc_hashes := {}; vc_sigs := {}; vc_result := {}; vc_steps := {}; vc_weight := {}; vc_calls := {}; vc_bytes := {} |}}",
        cf::ops(ops),
        cf::list(heap, |(a, v)| format!("({}, {})", a, cf::value(v))),
        cf::list(&o.hashes, |(a, b)| format!("({}, {})", cf::bytes(a), cf::bytes(b))),
        cf::list(&o.sigs, |((a, b, c), r)| format!("(({}, {}, {}), {})", cf::bytes(a), cf::bytes(b), cf::bytes(c), r)),
        cf::opt(&res, cf::value), o.steps, o.weight, o.calls, cf::opt(&o.bytes, |b| cf::bytes(b)))
}

// ---------------------------------------------------------------- generators
#[derive(Clone, Copy, PartialEq, Debug)]
enum Ty { I, B, V }

fn small_int(r: &mut Rng) -> U256 {
    match r.below(8) {
        0 => U256::ZERO, 1 => U256::ONE, 2 => U256::from(r.below(10) as u128), 3 => U256::from(r.below(70000) as u128),
        4 => U256::MAX - U256::from(r.below(3) as u128), 5 => U256::ONE << (r.below(256) as u32),
        6 => U256::from(255u32 + r.below(3) as u32), _ => U256::from_be_bytes(r.bytes(32).try_into().unwrap()),
    }
}

pub fn random_value(r: &mut Rng, depth: u32) -> Value {
    match r.below(if depth == 0 { 2 } else { 3 }) {
        0 => Value::Int(small_int(r)),
        1 => { let n = *r.pick(&[0usize, 1, 2, 5, 31, 32, 33, 64]); Value::from_bytes(&r.bytes(n)) }
        _ => { let n = r.below(4) as usize; Value::Vector((0..n).map(|_| random_value(r, depth - 1)).collect::<Vec<_>>().into()) }
    }
}

/// type-aware generator: keeps an abstract stack so most programs run for a while
pub fn typed_program(r: &mut Rng, len: usize, max_loops: usize) -> Vec<OpCode> {
    use OpCode::*;
    let mut ops = Vec::new();
    let mut st: Vec<Ty> = Vec::new();
    let mut loops = 0;
    while ops.len() < len {
        let top = st.last().copied();
        let second = if st.len() >= 2 { Some(st[st.len() - 2]) } else { None };
        let c = r.below(100);
        if c < 6 && loops < max_loops {
            // a balanced loop body: push; op; store away
            let iters = *r.pick(&[0u16, 1, 2, 3, 7]);
            let body: Vec<OpCode> = match r.below(4) {
                0 => vec![PushI(small_int(r)), StoreImm(7)],
                1 => vec![LoadImm(100), PushI(U256::ONE), Add, StoreImm(100)],
                2 => vec![Noop],
                _ => vec![BEmpty, PushI(small_int(r)), Dup, StoreImm(9), StoreImm(8), StoreImm(8)],
            };
            let blen = body.len() as u16;
            let declared = match r.below(8) { 0 => blen + 1, 1 => blen.saturating_sub(1), 2 => 0, _ => blen };
            if matches!(body[0], LoadImm(100)) { ops.push(PushI(U256::ZERO)); ops.push(StoreImm(100)); }
            ops.push(Loop(iters, declared));
            ops.extend(body);
            loops += 1;
            continue;
        }
        if c < 10 {
            let j = r.below(4) as u16;
            match r.below(3) {
                0 => ops.push(Jmp(j)),
                1 => { ops.push(PushI(U256::from(r.below(2) as u32))); ops.push(Bez(j)); }
                _ => { ops.push(PushI(U256::from(r.below(2) as u32))); ops.push(Bnz(j)); }
            }
            continue;
        }
        match (top, second) {
            (Some(Ty::I), Some(Ty::I)) if c < 55 => {
                let o = match r.below(16) { 0 => Add, 1 => Sub, 2 => Mul, 3 => Div, 4 => Rem, 5 => And, 6 => Or, 7 => Xor, 8 => Eql, 9 => Lt, 10 => Gt, 11 => Shl, 12 => Shr,
                    13 => Exp(*r.pick(&[0u8, 1, 7, 8, 255])), 14 => Exp(r.next() as u8), _ => Add };
                ops.push(o); st.pop();
            }
            (Some(Ty::I), _) if c < 65 => {
                match r.below(6) {
                    0 => { ops.push(Not); }
                    1 => { ops.push(ItoB); st.pop(); st.push(Ty::B); }
                    2 => { ops.push(TypeQ); }
                    3 => { ops.push(Dup); st.push(Ty::I); }
                    4 => { ops.push(StoreImm(r.below(4) as u16)); st.pop(); }
                    _ => { ops.push(PushI(U256::from(r.below(4) as u32))); ops.push(Store); st.pop(); }
                }
            }
            (Some(Ty::B), Some(Ty::B)) if c < 45 => { ops.push(BAppend); st.pop(); }
            (Some(Ty::B), Some(Ty::I)) if c < 60 => {
                match r.below(3) { 0 => { ops.push(BRef); st.pop(); st.pop(); st.push(Ty::I); } 1 => { ops.push(BPush); st.pop(); st.pop(); st.push(Ty::B); }
                    _ => { if st.len() >= 3 && st[st.len() - 3] == Ty::I { ops.push(if r.chance(1, 2) { BSlice } else { BSet }); st.pop(); st.pop(); st.pop(); st.push(Ty::B); } else { ops.push(BRef); st.pop(); st.pop(); st.push(Ty::I); } } }
            }
            (Some(Ty::I), Some(Ty::B)) if c < 75 => { ops.push(BCons); st.pop(); st.pop(); st.push(Ty::B); }
            (Some(Ty::B), _) if c < 70 => {
                match r.below(5) {
                    0 => { ops.push(BLength); st.pop(); st.push(Ty::I); }
                    1 => { ops.push(Hash(*r.pick(&[0u16, 1, 32, 64, 65535]))); }
                    2 => { ops.push(BtoI); st.pop(); st.push(Ty::I); }
                    3 => { ops.push(Dup); st.push(Ty::B); }
                    _ => { ops.push(TypeQ); st.pop(); st.push(Ty::I); }
                }
            }
            (Some(Ty::V), Some(Ty::V)) if c < 45 => { ops.push(VAppend); st.pop(); }
            (Some(Ty::V), Some(Ty::I)) if c < 60 => {
                match r.below(3) { 0 => { ops.push(VRef); st.pop(); st.pop(); st.push(Ty::I); } 1 => { ops.push(VPush); st.pop(); st.pop(); st.push(Ty::V); }
                    _ => { if st.len() >= 3 && st[st.len() - 3] == Ty::I { ops.push(if r.chance(1, 2) { VSlice } else { VSet }); st.pop(); st.pop(); st.pop(); st.push(Ty::V); } else { ops.push(VPush); st.pop(); st.pop(); st.push(Ty::V); } } }
            }
            (Some(_), Some(Ty::V)) if c < 75 => { ops.push(VCons); st.pop(); st.pop(); st.push(Ty::V); }
            (Some(Ty::V), _) if c < 70 => {
                match r.below(3) { 0 => { ops.push(VLength); st.pop(); st.push(Ty::I); } 1 => { ops.push(Dup); st.push(Ty::V); } _ => { ops.push(TypeQ); st.pop(); st.push(Ty::I); } }
            }
            _ => {
                match r.below(9) {
                    0 | 1 | 2 => { ops.push(if r.chance(1, 2) { PushI(small_int(r)) } else { PushIC(small_int(r)) }); st.push(Ty::I); }
                    3 | 4 => { let n = *r.pick(&[0usize, 1, 3, 31, 32, 33]); ops.push(PushB(r.bytes(n))); st.push(Ty::B); }
                    5 => { ops.push(BEmpty); st.push(Ty::B); }
                    6 => { ops.push(VEmpty); st.push(Ty::V); }
                    7 => { ops.push(LoadImm(r.below(4) as u16)); st.push(*r.pick(&[Ty::I, Ty::B, Ty::V])); }
                    _ => { ops.push(PushI(U256::from(r.below(4) as u32))); ops.push(Load); st.push(Ty::I); }
                }
            }
        }
    }
    ops
}

fn alphabet() -> Vec<OpCode> {
    use OpCode::*;
    vec![PushI(U256::ZERO), PushI(U256::from(2u32)), Add, Sub, Dup, Eql, Bez(1), Bnz(1), Jmp(1), Loop(2, 1), Loop(0, 1), Loop(2, 2), BEmpty, BPush, StoreImm(0), LoadImm(0), Noop]
}

fn exhaustive(len: usize, out: &mut Vec<Vec<OpCode>>) {
    let a = alphabet();
    let mut idx = vec![0usize; len];
    loop {
        out.push(idx.iter().map(|i| a[*i].clone()).collect());
        let mut k = 0;
        loop {
            if k == len { return; }
            idx[k] += 1;
            if idx[k] < a.len() { break; }
            idx[k] = 0; k += 1;
        }
    }
}

pub fn adversarial(r: &mut Rng) -> Vec<Vec<OpCode>> {
    use OpCode::*;
    let mut v: Vec<Vec<OpCode>> = vec![];
    let one = || PushI(U256::ONE);
    // loop towers (weight grows as a product; step count = weight)
    for depth in 1..=6usize {
        let mut p = vec![PushI(U256::ZERO), StoreImm(0)];
        for d in 0..depth { p.push(Loop(3, (4 + (depth - 1 - d)) as u16)); }
        p.extend(vec![LoadImm(0), one(), Add, StoreImm(0)]);
        p.push(LoadImm(0));
        v.push(p);
    }
    // bodies that overrun the program, empty bodies, stale frames
    v.push(vec![Loop(3, 10), one()]);
    v.push(vec![Loop(3, 0), one()]);
    v.push(vec![Loop(1, 0), one()]);
    v.push(vec![Loop(2, 1), Loop(2, 0), one()]);
    v.push(vec![Loop(2, 2), Loop(3, 0), one(), one()]);
    v.push(vec![Loop(2, 2), Loop(2, 2), one(), one()]); // improperly nested
    v.push(vec![Loop(2, 3), Loop(2, 2), one(), one()]);
    v.push(vec![Loop(2, 3), one(), Loop(2, 1), one()]);
    v.push(vec![Loop(65535, 1), Noop, one()]);
    v.push(vec![Loop(300, 2), Loop(300, 1), Noop, one()]);
    // jumps out of / to the end of loop bodies
    v.push(vec![Loop(3, 2), Jmp(0), Noop, one()]);
    v.push(vec![Loop(3, 2), Jmp(1), Noop, one()]);
    v.push(vec![Loop(3, 2), Jmp(2), Noop, one(), one()]);
    v.push(vec![Loop(3, 2), Jmp(5), Noop, one()]);
    v.push(vec![Loop(3, 1), Jmp(0), one()]);
    v.push(vec![Loop(5, 3), PushI(U256::ZERO), Bez(0), Noop, one()]);
    v.push(vec![Loop(5, 3), PushI(U256::ZERO), Bez(1), Noop, one()]);
    v.push(vec![Loop(5, 3), PushI(U256::ZERO), Bnz(1), Noop, one()]);
    v.push(vec![Jmp(65535)]);
    v.push(vec![one(), Jmp(0)]);
    v.push(vec![one(), Jmp(1)]);
    v.push(vec![PushB(vec![1]), Bez(1), Noop, one()]);
    v.push(vec![PushB(vec![]), Bnz(1), Noop, one()]);
    v.push(vec![VEmpty, Bez(1), Noop, one()]);
    // doubling chains followed by consuming opcodes (finding F13 lives beyond k ~ 20: kept small here)
    for k in [3usize, 6, 9] {
        for tail in [vec![BtoI], vec![Hash(65535)], vec![BLength], vec![PushI(U256::ZERO), PushI(U256::from(4u32)), Dup, StoreImm(5), StoreImm(5), LoadImm(5), BSlice, BLength]] {
            let mut p = vec![PushB(vec![7; 8])];
            for _ in 0..k { p.push(Dup); p.push(BAppend); }
            p.extend(tail.clone());
            v.push(p);
        }
        let mut p = vec![VEmpty, one(), VCons];
        for _ in 0..k { p.push(Dup); p.push(VAppend); }
        p.push(VLength);
        v.push(p);
    }
    // exponent bit limits
    for (k, e) in [(0u8, 1u32), (0, 2), (1, 3), (1, 4), (7, 255), (7, 256), (255, 0)] {
        v.push(vec![PushI(U256::from(e)), PushI(U256::from(3u32)), Exp(k)]);
    }
    v.push(vec![PushI(U256::MAX), PushI(U256::from(3u32)), Exp(255)]);
    v.push(vec![PushI(U256::MAX), PushI(U256::from(2u32)), Exp(254)]);
    // shifts
    for off in [0u32, 1, 255, 256, 257, 511] {
        v.push(vec![PushI(U256::from(off)), PushI(U256::MAX), Shl]);
        v.push(vec![PushI(U256::from(off)), PushI(U256::MAX), Shr]);
    }
    v.push(vec![PushI(U256::ONE << 32u32), PushI(U256::from(5u32)), Shl]);
    v.push(vec![PushI((U256::ONE << 200u32) + U256::from(3u32)), PushI(U256::from(5u32)), Shl]);
    // slices at the boundaries
    for (b, e) in [(0u32, 0u32), (0, 3), (0, 4), (1, 3), (3, 3), (3, 2), (4, 4), (0, 65535), (65536, 2), (2, 65536)] {
        v.push(vec![PushI(U256::from(e)), PushI(U256::from(b)), PushB(vec![1, 2, 3]), BSlice]);
        v.push(vec![PushI(U256::from(e)), PushI(U256::from(b)), VEmpty, one(), VCons, one(), VCons, one(), VCons, VSlice]);
    }
    // refs / sets out of range, truncation of pushed bytes
    for i in [0u32, 2, 3, 65535, 65536] {
        v.push(vec![PushI(U256::from(i)), PushB(vec![9, 8, 7]), BRef]);
        v.push(vec![PushI(U256::from(511u32)), PushI(U256::from(i)), PushB(vec![9, 8, 7]), BSet]);
        v.push(vec![one(), PushI(U256::from(i)), VEmpty, one(), VCons, one(), VCons, VSet]);
        v.push(vec![PushI(U256::from(i)), VEmpty, one(), VCons, one(), VCons, VRef]);
    }
    v.push(vec![PushI(U256::from(0x1ffu32)), BEmpty, BPush]);
    v.push(vec![BEmpty, PushI(U256::from(0x1ffu32)), BCons]);
    // heap
    v.push(vec![PushI(U256::from(65536u32)), Load]);
    v.push(vec![one(), PushI(U256::from(65535u32)), Store, PushI(U256::from(65535u32)), Load]);
    v.push(vec![one(), PushI(U256::from(65536u32)), Store]);
    v.push(vec![LoadImm(77)]);
    // hashing / signature edge cases
    let (pk, sk) = tmelcrypt::ed25519_keygen();
    let msg = r.bytes(32);
    let sig = sk.sign(&msg);
    let mk = |sig: Vec<u8>, pk: Vec<u8>, msg: Vec<u8>, n: u16| vec![PushB(sig), PushB(pk), PushB(msg), SigEOk(n)];
    v.push(mk(sig.clone(), pk.0.to_vec(), msg.clone(), 32));
    v.push(mk(sig.clone(), pk.0.to_vec(), msg.clone(), 31));
    let mut bad = sig.clone(); bad[3] ^= 1;
    v.push(mk(bad, pk.0.to_vec(), msg.clone(), 32));
    v.push(mk(sig[..63].to_vec(), pk.0.to_vec(), msg.clone(), 32));
    let mut long = sig.clone(); long.push(0);
    v.push(mk(long, pk.0.to_vec(), msg.clone(), 32));
    v.push(mk(sig.clone(), pk.0[..31].to_vec(), msg.clone(), 32));
    let mut pk33 = pk.0.to_vec(); pk33.push(1);
    v.push(mk(sig.clone(), pk33.clone(), msg.clone(), 32));
    v.push(vec![one(), PushB(pk33), one(), SigEOk(32)]);
    v.push(vec![one(), PushB(pk.0.to_vec()), PushB(msg.clone()), SigEOk(32)]);
    v.push(vec![PushB(sig.clone()), one(), PushB(msg.clone()), SigEOk(32)]);
    v.push(vec![PushB(vec![1, 2, 3]), Hash(3)]);
    v.push(vec![PushB(vec![1, 2, 3]), Hash(2)]);
    v.push(vec![PushB(vec![]), Hash(0)]);
    v.push(vec![one(), Hash(40)]);
    // conversions
    v.push(vec![PushB(vec![1; 32]), BtoI]);
    v.push(vec![PushB(vec![1; 31]), BtoI]);
    v.push(vec![PushB(vec![1; 33]), BtoI]);
    v.push(vec![PushI(U256::from(258u32)), ItoB]);
    v.push(vec![PushI(U256::from(258u32)), ItoB, BtoI]);
    v.push(vec![]);
    v.push(vec![Noop]);
    // jumps over a loop header into its body: the body of a Loop that runs zero times (or of any loop) can still
    // be reached by a forward jump, and whatever runs there must have been weighed
    for (it, inner) in [(0u16, 300u16), (0, 3), (1, 300), (0, 65535)] {
        v.push(vec![PushI(U256::ZERO), Jmp(1), Loop(it, 3), Loop(inner, 2), one(), Add]);
        v.push(vec![PushI(U256::ZERO), PushI(U256::ZERO), Bez(1), Loop(it, 3), Loop(inner, 2), one(), Add]);
        v.push(vec![PushI(U256::ZERO), Jmp(2), Loop(it, 4), Noop, Loop(inner, 2), one(), Add]);
    }
    v.push(vec![Jmp(1), Loop(0, 2), Loop(0, 1), Loop(200, 1), Noop]);
    // jumps taken inside a loop body: landing one past the body ("continue"), leaving the loop onto another loop header,
    // staying inside the body - each with a counter, so that the number of iterations shows in the result
    v.push(vec![PushI(U256::ZERO), Loop(3, 4), one(), Add, Jmp(1), Noop, PushI(U256::from(100u32)), Add]);
    v.push(vec![PushI(U256::ZERO), Loop(5, 5), one(), Add, Dup, Bnz(1), Noop, Noop]);
    v.push(vec![PushI(U256::ZERO), Loop(5, 5), one(), Add, PushI(U256::ZERO), Bez(1), Noop, Noop]);
    v.push(vec![PushI(U256::ZERO), Loop(2, 2), Jmp(2), Noop, Noop, Loop(4, 2), one(), Add]);
    v.push(vec![PushI(U256::ZERO), Loop(3, 4), Jmp(1), Noop, one(), Add]);
    v.push(vec![PushI(U256::ZERO), Loop(3, 3), one(), Add, Jmp(0), one(), Add]);
    // an Ed25519 check whose signature operand is a long rope: nothing proportional to its length may be allocated
    {
        let mut p = vec![PushB(vec![7u8; 64]), Loop(13, 2), Dup, BAppend, PushB(vec![1u8; 32]), PushB(vec![2u8; 8]), SigEOk(8)];
        v.push(p.clone());
        p[1] = Loop(3, 2); v.push(p);
    }
    // ... nor by Hash(n) on an operand much longer than n (refused), nor by the length / slice instructions on it
    {
        let base = vec![PushB(vec![7u8; 64]), Loop(13, 2), Dup, BAppend];
        for tail in [vec![Hash(32)], vec![Hash(64)], vec![BLength], vec![PushI(U256::from(8u32)), PushI(U256::from(4u32)), BSlice, Hash(4)]] {
            let mut p = base.clone(); p.extend(tail); v.push(p);
        }
    }
    // a loop header that is the last instruction of the (skipped) body of another header: its own body overruns
    // the enclosing one, and it is reached by a jump, so it runs in full
    for (n, k) in [(300u16, 2u16), (1000, 2), (7, 2)] {
        v.push(vec![PushI(U256::ZERO), Jmp(1), Loop(1, 1), Loop(n, k), one(), Add]);
        v.push(vec![PushI(U256::ZERO), PushI(U256::ZERO), Bez(1), Loop(3, 1), Loop(n, k), one(), Add]);
        v.push(vec![PushI(U256::ZERO), Jmp(2), Loop(1, 2), Noop, Loop(n, k), one(), Add]);
    }
    v.push(vec![PushI(U256::ZERO), Jmp(1), Loop(1, 1), Loop(60, 3), Loop(60, 2), one(), Add]);
    v.push(vec![PushI(U256::ZERO), Jmp(1), Loop(2, 2), Loop(1, 1), Loop(50, 2), one(), Add]);
    // nested loops that end on the same instruction, outer loop with several iterations
    v.push(vec![PushI(U256::ZERO), Loop(3, 5), Loop(4, 4), one(), Add, Noop, Noop]);
    v.push(vec![PushI(U256::ZERO), Loop(5, 3), Loop(2, 2), one(), Add]);
    v.push(vec![PushI(U256::ZERO), Loop(2, 4), Loop(2, 3), Loop(2, 2), one(), Add]);
    // known finding F12: k consecutive Loop opcodes cost 2^k opcodes_car_weight calls
    v.push(vec![Loop(1, 65535); 14]);
    // regression (fixed F13): BtoI on a long byte string must fail without materialising it
    {
        let mut p = vec![PushB(vec![7; 8])];
        for _ in 0..16 { p.push(Dup); p.push(BAppend); }
        p.push(BtoI);
        v.push(p);
    }
    v
}

pub fn run(tier: &str, seed: u64, em: &mut Emitter) {
    let mut r = Rng::new(seed ^ 0x7E57);
    let mut st = Stats::default();
    let mut progs: Vec<(Vec<OpCode>, Vec<(u16, Value)>)> = vec![];
    for p in adversarial(&mut r) { progs.push((p, vec![])); }
    let exh_len = if tier == "thorough" { 4 } else { 3 };
    let mut ex = vec![];
    for l in 1..=exh_len { exhaustive(l, &mut ex); }
    st.add("exhaustive_programs", ex.len() as u64);
    for p in ex { progs.push((p, vec![])); }
    let n_rand = if tier == "thorough" { 20000 } else { 1500 };
    for i in 0..n_rand {
        let len = r.range(1, if i % 10 == 0 { 60 } else { 20 }) as usize;
        let p = typed_program(&mut r, len, 4);
        let heap: Vec<(u16, Value)> = if r.chance(1, 2) { (0..4u16).map(|a| (a, random_value(&mut r, 2))).collect() } else { vec![] };
        progs.push((p, heap));
    }
    // random bytes that decode
    let mut got = 0;
    let mut tries = 0;
    while got < n_rand / 5 && tries < n_rand * 50 {
        tries += 1;
        let n = r.range(1, 24) as usize;
        let mut b = r.bytes(n);
        // bias towards valid opcode bytes
        for x in b.iter_mut() { if r.chance(1, 2) { *x = *r.pick(&[0x09u8, 0x10, 0x11, 0x24, 0x42, 0x43, 0x50, 0x51, 0x52, 0x56, 0x71, 0x72, 0x76, 0xa0, 0xa1, 0xb0, 0xc2, 0xff, 0xf2, 0x00, 0x01, 0x02]); } }
        if let Ok(c) = Covenant::from_bytes(&b) {
            let ops = c.to_ops();
            if ops.iter().filter(|o| matches!(o, OpCode::Loop(..))).count() <= 6 { progs.push((ops, vec![])); got += 1; }
        }
    }
    let mut lines = vec![];
    let mut metas = vec![];
    let mut seen = std::collections::HashSet::new();
    for (ops, heap) in &progs {
        let key = format!("{:?}{:?}", ops, heap);
        if !seen.insert(key) { continue; }
        let o = observe(ops, heap, 3_000_000);
        match &o.result {
            Err(e) => { st.bump(if e.starts_with("panic") { "panicked" } else { "step_cap" }); if !e.starts_with("panic") { continue; } }
            Ok(None) => st.bump("failed"),
            Ok(Some(_)) => st.bump("returned_value"),
        }
        if o.backedge { st.bump("took_loop_backedge"); }
        if !o.hashes.is_empty() { st.bump("used_hash_oracle"); }
        if !o.sigs.is_empty() { st.bump("used_sig_oracle"); }
        st.bump(&format!("steps_{}", match o.steps { 0 => "0", 1..=9 => "1-9", 10..=99 => "10-99", 100..=9999 => "100-9999", _ => "10000+" }));
        if o.steps as u128 > o.weight { st.bump("STEPS_EXCEED_WEIGHT"); }
        let panicked = o.result.is_err();
        lines.push(case_line(ops, heap, &o));
        // reflections of C11 / C09 on the real observation
        let nloops = ops.iter().filter(|x| matches!(x, OpCode::Loop(..))).count();
        let n = ops.len() as u64;
        let mut viol: Vec<String> = vec![];
        let mut class: Vec<&str> = vec![];
        let mut c11: Vec<String> = vec![];
        if o.steps as u128 > o.weight { c11.push(format!("executed {} instructions, weight {}", o.steps, o.weight)); }
        if o.calls > 4 * (n + 1) * (n + 1) {
            c11.push(format!("weighing {} opcodes took {} opcodes_car_weight calls", n, o.calls));
            if nloops >= 2 { class.push("F12"); }
        }
        if o.max_step_alloc > 400_000 {
            c11.push(format!("one {} instruction allocated {} bytes", o.max_step_op, o.max_step_alloc));
        }
        if !c11.is_empty() { viol.push(format!("\"C11\":{:?}", c11.join("; "))); }
        if panicked { viol.push(format!("\"C09\":{:?}", match &o.result { Err(e) => e.clone(), _ => String::new() })); }
        let res_s = match &o.result { Ok(Some(v)) => cf::value(v), Ok(None) => "fail".into(), Err(e) => e.clone() };
        let res_s = if res_s.len() > 300 { format!("{}...", &res_s[..300]) } else { res_s };
        let prog_s = cf::ops(ops);
        let prog_s = if prog_s.len() > 1500 { format!("{}...", &prog_s[..1500]) } else { prog_s };
        metas.push(format!("{{\"prog\":{:?},\"heap_entries\":{},\"steps\":{},\"weight\":\"{}\",\"calls\":{},\"result\":{:?},\"panicked\":{},\"violates\":{{{}}},\"class\":[{}]}}",
            prog_s, heap.len(), o.steps, o.weight, o.calls, res_s, panicked, viol.join(","), class.iter().map(|c| format!("\"{}\"", c)).collect::<Vec<_>>().join(",")));
    }
    st.add("programs", lines.len() as u64);
    em.case_files("vm", "vmcase", "check_vm", &lines, &metas, 300);
    em.stats("vm", st);
}

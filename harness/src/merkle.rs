//! `merkle` stream: small real novasmt trees; the model recomputes roots and proofs with the real hash
//! evaluations supplied as tables.
use crate::coqfmt as cf;
use crate::out::{Emitter, Stats};
use crate::rng::Rng;
use ethnum::U256;
use novasmt::{Database, InMemoryCas};
use std::collections::BTreeMap;

fn bit(key: &[u8; 32], i: usize) -> bool { key[i / 8] & (0x80 >> (i % 8)) != 0 }
fn n(h: &[u8; 32]) -> String { U256::from_be_bytes(*h).to_string() }

pub fn run(tier: &str, seed: u64, em: &mut Emitter) {
    let mut r = Rng::new(seed ^ 0x3E4C);
    let mut st = Stats::default();
    let ncases = if tier == "thorough" { 60 } else { 10 };
    let mut lines = vec![];
    let mut metas = vec![];
    for ci in 0..ncases {
        let nent = r.range(0, 5) as usize;
        let db = Database::new(InMemoryCas::default());
        let mut tree = db.get_tree([0u8; 32]).unwrap();
        let mut contents: BTreeMap<[u8; 32], Vec<u8>> = BTreeMap::new();
        // random insert / overwrite / delete history
        let mut keys: Vec<[u8; 32]> = (0..nent.max(1)).map(|i| {
            let mut k: [u8; 32] = r.bytes(32).try_into().unwrap();
            // make some keys share long prefixes
            if i > 0 && r.chance(1, 2) { let p = r.range(1, 31) as usize; let first: [u8; 32] = *contents.keys().next().unwrap_or(&k); k[..p].copy_from_slice(&first[..p]); }
            if contents.is_empty() { contents.insert(k, vec![]); }
            k
        }).collect();
        contents.clear();
        for _ in 0..(nent * 3) {
            let k = *r.pick(&keys);
            let v = if r.chance(1, 4) { vec![] } else { let l = r.range(1, 6) as usize; r.bytes(l) };
            tree.insert(k, &v);
            if v.is_empty() { contents.remove(&k); } else { contents.insert(k, v); }
        }
        keys.push(r.bytes(32).try_into().unwrap()); // an absent key
        let root = tree.root_hash();
        let mut hdata: Vec<(Vec<u8>, [u8; 32])> = vec![];
        let mut hnode: Vec<(([u8; 32], [u8; 32]), [u8; 32])> = vec![];
        let mut proofs = vec![];
        for k in &keys {
            let (val, proof) = tree.get_with_proof(*k);
            let val = val.to_vec();
            let ok = proof.verify(root, *k, &val);
            // a wrong value must not verify
            let mut wrong = val.clone(); wrong.push(7);
            let ok_wrong = proof.verify(root, *k, &wrong);
            for (v, _) in [(&val, ok), (&wrong, ok_wrong)] {
                let mut cur = novasmt::hash_data(v);
                if !v.is_empty() { hdata.push((v.clone(), cur)); }
                for lvl in (0..256).rev() {
                    let sib = proof.0[lvl];
                    let (l, rr) = if bit(k, lvl) { (sib, cur) } else { (cur, sib) };
                    let parent = novasmt::hash_node(l, rr);
                    if l != [0u8; 32] || rr != [0u8; 32] { hnode.push(((l, rr), parent)); }
                    cur = parent;
                }
            }
            proofs.push((*k, val, proof.0.clone(), ok));
            proofs.push((*k, wrong, proof.0.clone(), ok_wrong));
        }
        hdata.sort(); hdata.dedup(); hnode.sort(); hnode.dedup();
        st.add("hash_node_evaluations", hnode.len() as u64);
        st.bump(&format!("entries_{}", contents.len()));
        let line = format!("{{| mc_entries := {}; mc_root := {}; mc_hdata := {}; mc_hnode := {}; mc_proofs := {} |}}",
            cf::list(&contents.iter().collect::<Vec<_>>(), |(k, v)| format!("({}, {})", n(k), cf::bytes(v))),
            n(&root),
            cf::list(&hdata, |(v, h)| format!("({}, {})", cf::bytes(v), n(h))),
            cf::list(&hnode, |((a, b), h)| format!("(({}, {}), {})", n(a), n(b), n(h))),
            cf::list(&proofs, |(k, v, p, ok)| format!("({}, {}, {}, {})", n(k), cf::bytes(v), cf::list(p, n), ok)));
        lines.push(line);
        metas.push(format!("{{\"tree\":{},\"entries\":{},\"proofs\":{},\"root\":\"{}\"}}", ci, contents.len(), proofs.len(), hex::encode(root)));
    }
    em.case_files_with("merkle", "mcase", "check_merkle", &lines, &metas, 2, "Cases.MerkleLib");
    // dense trees (novasmt::dense, the TIP-908 transaction tree): root, every proof, a wrong leaf
    let mut dlines = vec![];
    let mut dmetas = vec![];
    let sizes: Vec<usize> = if tier == "thorough" { (0..=17).chain([31, 32, 33]).collect() } else { vec![0, 1, 2, 3, 4, 5, 7, 8, 9] };
    for nb in sizes {
        let blocks: Vec<Vec<u8>> = (0..nb).map(|i| if i == 1 && r.chance(1, 3) { vec![] } else { let l = r.range(1, 5) as usize; r.bytes(l) }).collect();
        let tree = novasmt::dense::DenseMerkleTree::new(&blocks);
        let root = tree.root_hash();
        // the real hash evaluations of the tree, recomputed level by level
        let mut hdata: Vec<(Vec<u8>, [u8; 32])> = blocks.iter().filter(|b| !b.is_empty()).map(|b| (b.clone(), novasmt::hash_data(b))).collect();
        let mut level: Vec<[u8; 32]> = blocks.iter().map(|b| novasmt::hash_data(b)).collect();
        let npp = level.len().next_power_of_two();
        while level.len() < npp { level.push([0u8; 32]); }
        let mut hnode: Vec<(([u8; 32], [u8; 32]), [u8; 32])> = vec![];
        while level.len() > 1 {
            let mut next = vec![];
            for pair in level.chunks(2) {
                let h = novasmt::hash_node(pair[0], pair[1]);
                if pair[0] != [0u8; 32] || pair[1] != [0u8; 32] { hnode.push(((pair[0], pair[1]), h)); }
                next.push(h);
            }
            level = next;
        }
        let mut proofs = vec![];
        for i in 0..nb {
            let pr = tree.proof(i);
            let leaf = novasmt::hash_data(&blocks[i]);
            let ok = novasmt::dense::verify_dense(&pr, root, i, leaf);
            let mut wrong = blocks[i].clone(); wrong.push(9);
            let wl = novasmt::hash_data(&wrong);
            let ok_wrong = novasmt::dense::verify_dense(&pr, root, i, wl);
            hdata.push((wrong.clone(), wl));
            // evaluations along the wrong climb
            let mut cur = wl; let mut idx = i;
            for e in &pr { let (l, rr) = if idx & 1 == 1 { (*e, cur) } else { (cur, *e) }; let h = novasmt::hash_node(l, rr); hnode.push(((l, rr), h)); cur = h; idx >>= 1; }
            proofs.push((i, blocks[i].clone(), pr.clone(), ok));
            proofs.push((i, wrong, pr, ok_wrong));
        }
        hdata.sort(); hdata.dedup(); hnode.sort(); hnode.dedup();
        st.bump(&format!("dense_blocks_{}", nb));
        dlines.push(format!("{{| dc_blocks := {}; dc_root := {}; dc_hdata := {}; dc_hnode := {}; dc_proofs := {} |}}",
            cf::list(&blocks, |b| cf::bytes(b)), n(&root),
            cf::list(&hdata, |(v, h)| format!("({}, {})", cf::bytes(v), n(h))),
            cf::list(&hnode, |((a, b), h)| format!("(({}, {}), {})", n(a), n(b), n(h))),
            cf::list(&proofs, |(i, v, p, ok)| format!("({}, {}, {}, {})", i, cf::bytes(v), cf::list(p, n), ok))));
        dmetas.push(format!("{{\"dense_blocks\":{},\"root\":\"{}\"}}", nb, hex::encode(root)));
    }
    em.case_files_with("dense", "dcase", "check_dense", &dlines, &dmetas, 4, "Cases.MerkleLib");
    em.stats("merkle", st);
}

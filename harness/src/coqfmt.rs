//! Printing of Rust-side data as Gallina terms for the model (coq/Cases/*.v).
use ethnum::U256;
use melvm::opcode::OpCode;
use melvm::Value;

pub fn bytes(b: &[u8]) -> String {
    let mut s = String::with_capacity(b.len() * 4 + 2);
    s.push('[');
    for (i, x) in b.iter().enumerate() {
        if i > 0 { s.push(';'); }
        s.push_str(&x.to_string());
    }
    s.push(']');
    s
}

pub fn list<T>(v: &[T], f: impl Fn(&T) -> String) -> String {
    let mut s = String::from("[");
    for (i, x) in v.iter().enumerate() {
        if i > 0 { s.push_str("; "); }
        s.push_str(&f(x));
    }
    s.push(']');
    s
}

pub fn opt<T>(v: &Option<T>, f: impl Fn(&T) -> String) -> String {
    match v { None => "None".into(), Some(x) => format!("(Some {})", f(x)) }
}

pub fn u256(n: &U256) -> String { n.to_string() }

/// 32-byte hash as a big-endian number
pub fn hash_n(h: &[u8; 32]) -> String { U256::from_be_bytes(*h).to_string() }

pub fn op(o: &OpCode) -> String {
    use OpCode::*;
    match o {
        Noop => "Noop".into(), Add => "Add".into(), Sub => "Sub".into(), Mul => "Mul".into(),
        Div => "Div".into(), Rem => "Rem".into(), Exp(k) => format!("(Exp {})", k),
        And => "And".into(), Or => "Or".into(), Xor => "Xor".into(), Not => "Not".into(),
        Eql => "Eql".into(), Lt => "Lt".into(), Gt => "Gt".into(), Shl => "Shl".into(), Shr => "Shr".into(),
        Hash(n) => format!("(Hash {})", n), SigEOk(n) => format!("(SigEOk {})", n),
        Store => "Store".into(), Load => "Load".into(),
        StoreImm(i) => format!("(StoreImm {})", i), LoadImm(i) => format!("(LoadImm {})", i),
        VRef => "VRef".into(), VAppend => "VAppend".into(), VEmpty => "VEmpty".into(), VLength => "VLength".into(),
        VSlice => "VSlice".into(), VSet => "VSet".into(), VPush => "VPush".into(), VCons => "VCons".into(),
        BRef => "BRef".into(), BAppend => "BAppend".into(), BEmpty => "BEmpty".into(), BLength => "BLength".into(),
        BSlice => "BSlice".into(), BSet => "BSet".into(), BPush => "BPush".into(), BCons => "BCons".into(),
        Bez(j) => format!("(Bez {})", j), Bnz(j) => format!("(Bnz {})", j), Jmp(j) => format!("(Jmp {})", j),
        Loop(a, b) => format!("(Loop {} {})", a, b),
        ItoB => "ItoB".into(), BtoI => "BtoI".into(), TypeQ => "TypeQ".into(),
        PushB(b) => format!("(PushB {})", bytes(b)),
        PushI(n) => format!("(PushI {})", u256(n)), PushIC(n) => format!("(PushIC {})", u256(n)),
        Dup => "Dup".into(),
    }
}

pub fn ops(v: &[OpCode]) -> String { list(v, op) }

pub fn value(v: &Value) -> String {
    match v {
        Value::Int(n) => format!("(VInt {})", u256(n)),
        Value::Bytes(b) => { let b: Vec<u8> = b.clone().into(); format!("(VBytes {})", bytes(&b)) }
        Value::Vector(vs) => { let vs: Vec<Value> = vs.clone().into(); format!("(VVec {})", list(&vs, value)) }
    }
}

//! Canonical dumps of real states and Gallina printing of STF data.
use crate::coqfmt as cf;
use ethnum::U256;
use melstf::UnsealedState;
use melstructs::*;
use novasmt::InMemoryCas;
use std::collections::{BTreeMap, HashMap};
use stdcode::StdcodeSerializeExt;
use tmelcrypt::{HashVal, Hashable};

pub type St = UnsealedState<InMemoryCas>;

pub fn hn(h: &HashVal) -> String { U256::from_be_bytes(h.0).to_string() }

pub fn denom(d: &Denom) -> String {
    match d {
        Denom::Mel => "Mel".into(), Denom::Sym => "Sym".into(), Denom::Erg => "Erg".into(),
        Denom::NewCustom => "NewCustom".into(), Denom::Custom(h) => format!("(Custom {})", hn(&h.0)),
    }
}
pub fn coindata(c: &CoinData) -> String {
    format!("{{| cd_covhash := {}; cd_value := {}; cd_denom := {}; cd_extra := {} |}}",
        hn(&c.covhash.0), c.value.0, denom(&c.denom), cf::bytes(&c.additional_data))
}
pub fn cdh(c: &CoinDataHeight) -> String {
    format!("{{| c_data := {}; c_height := {} |}}", coindata(&c.coin_data), c.height.0)
}
pub fn coin_key(id: &CoinID) -> String {
    let mut acc = num_big(0);
    for x in id.txhash.0 .0.iter() { acc = mul_small(&acc, 256, *x as u32); }
    acc = mul_small(&acc, 256, id.index as u32);
    digits(&acc)
}
pub fn kind(k: TxKind) -> &'static str {
    match k {
        TxKind::Normal => "KNormal", TxKind::Stake => "KStake", TxKind::DoscMint => "KDoscMint", TxKind::Swap => "KSwap",
        TxKind::LiqDeposit => "KLiqDeposit", TxKind::LiqWithdraw => "KLiqWithdraw", TxKind::Faucet => "KFaucet",
    }
}
pub fn stakedoc(d: &StakeDoc) -> String {
    format!("{{| sd_pubkey := {}; sd_start := {}; sd_postend := {}; sd_staked := {} |}}",
        U256::from_be_bytes(d.pubkey.0), d.e_start, d.e_post_end, d.syms_staked.0)
}
pub fn pool(p: &PoolState) -> String {
    format!("{{| p_lefts := {}; p_rights := {}; p_accum := {}; p_liqs := {} |}}", p.lefts, p.rights, p.price_accum, p.liqs)
}
pub fn header(h: &Header) -> String {
    format!("{{| h_network := {}; h_previous := {}; h_height := {}; h_history := {}; h_coins := {}; h_txs := {}; h_fee_pool := {}; h_fee_mult := {}; h_dosc_speed := {}; h_pools := {}; h_stakes := {} |}}",
        h.network as u8, hn(&h.previous), h.height.0, hn(&h.history_hash), hn(&h.coins_hash), hn(&h.transactions_hash),
        h.fee_pool.0, h.fee_multiplier, h.dosc_speed, hn(&h.pools_hash), hn(&h.stakes_hash))
}
pub fn roots_of(h: &Header) -> String {
    format!("{{| r_history := {}; r_coins := {}; r_txs := {}; r_pools := {}; r_stakes := {} |}}",
        hn(&h.history_hash), hn(&h.coins_hash), hn(&h.transactions_hash), hn(&h.pools_hash), hn(&h.stakes_hash))
}
pub fn roots_zero() -> String { "{| r_history := 0; r_coins := 0; r_txs := 0; r_pools := 0; r_stakes := 0 |}".into() }
pub fn action(a: &Option<ProposerAction>) -> String {
    match a {
        None => "None".into(),
        Some(a) => format!("(Some {{| a_delta := ({})%Z; a_dest := {} |}})", a.fee_multiplier_delta, hn(&a.reward_dest.0)),
    }
}
/// PoolKey::to_bytes coded as a number (big endian with a leading 1), as the model's poolkey_code
pub fn bytes_code(b: &[u8]) -> String {
    let mut acc = num_big(1);
    for x in b { acc = mul_small(&acc, 256, *x as u32); }
    digits(&acc)
}
// minimal arbitrary-precision (pool keys can be 32+66 bytes: beyond U256)
fn num_big(x: u32) -> Vec<u32> { vec![x] }
fn mul_small(a: &[u32], m: u32, add: u32) -> Vec<u32> {
    let mut out = Vec::with_capacity(a.len() + 1);
    let mut carry = add as u64;
    for d in a { let v = *d as u64 * m as u64 + carry; out.push((v % 1_000_000_000) as u32); carry = v / 1_000_000_000; }
    while carry > 0 { out.push((carry % 1_000_000_000) as u32); carry /= 1_000_000_000; }
    out
}
fn digits(a: &[u32]) -> String {
    let mut s = String::new();
    for (i, d) in a.iter().rev().enumerate() { if i == 0 { s.push_str(&d.to_string()); } else { s.push_str(&format!("{:09}", d)); } }
    s
}
pub fn poolkey_code(k: &PoolKey) -> String { bytes_code(&k.to_bytes()) }

pub struct Proofs { pub table: Vec<Vec<u8>> }
impl Proofs {
    pub fn id(&mut self, b: &[u8]) -> usize {
        if let Some(i) = self.table.iter().position(|x| x == b) { return i; }
        self.table.push(b.to_vec());
        self.table.len() - 1
    }
}

pub fn tx(t: &Transaction, proofs: &mut Proofs) -> String {
    let sd: Option<StakeDoc> = stdcode::deserialize(&t.data).ok();
    let pk = PoolKey::from_bytes(&t.data);
    let dosc = match stdcode::deserialize::<(u32, Vec<u8>)>(&t.data) {
        Err(_) => "DDNone".to_string(),
        Ok((d, pb)) => match melpow::Proof::from_bytes(&pb) {
            None => format!("(DDBadProof {})", d),
            Some(_) => format!("(DDProof {} {})", d, proofs.id(&pb)),
        },
    };
    format!("{{| t_kind := {}; t_inputs := {}; t_outputs := {}; t_fee := {}; t_covenants := {}; t_data := {}; t_sigs := {}; t_hash := {}; t_fullhash := {}; t_rawlen := {}; t_covhashes := {}; t_stakedoc := {}; t_poolkey := {}; t_dosc := {} |}}",
        kind(t.kind),
        cf::list(&t.inputs, |i| format!("({}, {})", hn(&i.txhash.0), i.index)),
        cf::list(&t.outputs, coindata),
        t.fee.0,
        cf::list(&t.covenants, |c| cf::bytes(c)),
        cf::bytes(&t.data),
        cf::list(&t.sigs, |c| cf::bytes(c)),
        hn(&t.hash_nosigs().0),
        hn(&t.stdcode().hash()),
        t.stdcode().len(),
        cf::list(&t.covenants, |c| hn(&c.hash())),
        cf::opt(&sd, stakedoc),
        cf::opt(&pk, |k| format!("({}, {})", denom(&k.left()), denom(&k.right()))),
        dosc)
}

/// what the harness knows about SMT keys (the trees are keyed by hashes)
#[derive(Default)]
pub struct Dict {
    pub coins: HashMap<[u8; 32], CoinID>,
    pub counts: HashMap<[u8; 32], Address>,
    pub pools: HashMap<[u8; 32], PoolKey>,
    pub heights: HashMap<[u8; 32], u64>,
}
impl Dict {
    pub fn coin(&mut self, id: CoinID) { self.coins.insert(id.stdcode().hash().0, id); }
    pub fn cov(&mut self, a: Address) { self.counts.insert(tmelcrypt::hash_keyed(b"coin_count", a.0).0, a); }
    pub fn pool(&mut self, k: PoolKey) { self.pools.insert(tmelcrypt::hash_single(&stdcode::serialize(&k).unwrap()).0, k); }
    pub fn height(&mut self, h: u64) { self.heights.insert(tmelcrypt::hash_single(&stdcode::serialize(&BlockHeight(h)).unwrap()).0, h); }
    pub fn tx(&mut self, t: &Transaction) {
        let h = t.hash_nosigs();
        for i in 0..(t.outputs.len().max(2) as u16 + 1).min(256) { self.coin(CoinID::new(h, i as u8)); }
        for o in &t.outputs { self.cov(o.covhash); }
        for i in &t.inputs { self.coin(*i); }
        self.coin(CoinID { txhash: tmelcrypt::hash_keyed(b"fdp", h.0).into(), index: 0 });
        if let Some(k) = PoolKey::from_bytes(&t.data) { self.pool(k); }
    }
}

pub struct Dump {
    pub network: NetID,
    pub height: u64,
    pub history: BTreeMap<u64, Header>,
    pub coins: BTreeMap<CoinID, CoinDataHeight>,
    pub counts: BTreeMap<Address, u64>,
    pub txs: Vec<Transaction>,
    pub fee_pool: u128,
    pub mult: u128,
    pub tips: u128,
    pub speed: u128,
    pub pools: Vec<(PoolKey, PoolState)>,
    pub stakes: BTreeMap<TxHash, StakeDoc>,
    pub unknown: Vec<String>,
}

pub fn dump(s: &St, d: &Dict) -> Dump {
    let mut unknown = vec![];
    let mut coins = BTreeMap::new();
    let mut counts = BTreeMap::new();
    for (k, v) in s.verif_coins().iter() {
        if let Some(id) = d.coins.get(&k) {
            match stdcode::deserialize::<CoinDataHeight>(&v) { Ok(c) => { coins.insert(*id, c); } Err(_) => unknown.push(format!("undecodable coin at {}", hex::encode(k))) }
        } else if let Some(a) = d.counts.get(&k) {
            match stdcode::deserialize::<u64>(&v) { Ok(c) => { counts.insert(*a, c); } Err(_) => unknown.push(format!("undecodable count at {}", hex::encode(k))) }
        } else { unknown.push(format!("unknown coin-tree key {}", hex::encode(k))); }
    }
    let mut pools = vec![];
    for (k, v) in s.verif_pools().iter() {
        if let Some(pk) = d.pools.get(&k) {
            match stdcode::deserialize::<PoolState>(&v) { Ok(p) => pools.push((*pk, p)), Err(_) => unknown.push("undecodable pool".into()) }
        } else { unknown.push(format!("unknown pool key {}", hex::encode(k))); }
    }
    pools.sort_by_key(|(k, _)| k.to_bytes().to_vec());
    let mut history = BTreeMap::new();
    for (k, v) in s.verif_history().iter() {
        if let Some(h) = d.heights.get(&k) {
            match stdcode::deserialize::<Header>(&v) { Ok(p) => { history.insert(*h, p); } Err(_) => unknown.push("undecodable header".into()) }
        } else { unknown.push(format!("unknown history key {}", hex::encode(k))); }
    }
    let stakes: BTreeMap<TxHash, StakeDoc> = s.verif_stakes().iter().map(|(k, v)| (*k, *v)).collect();
    Dump { network: s.verif_network(), height: s.verif_height().0, history, coins, counts, txs: s.verif_transactions(),
        fee_pool: s.verif_fee_pool().0, mult: s.verif_fee_multiplier(), tips: s.verif_tips().0, speed: s.verif_dosc_speed(), pools, stakes, unknown }
}

pub fn dump_coq(d: &Dump, proofs: &mut Proofs) -> String {
    format!("{{| d_network := {}; d_height := {}; d_history := {}; d_coins := {}; d_counts := {}; d_txs := {}; d_fee_pool := {}; d_mult := {}; d_tips := {}; d_speed := {}; d_pools := {}; d_stakes := {} |}}",
        d.network as u8, d.height,
        cf::list(&d.history.iter().collect::<Vec<_>>(), |(h, hd)| format!("({}, {})", h, header(hd))),
        cf::list(&d.coins.iter().collect::<Vec<_>>(), |(k, c)| format!("({}, {})", coin_key(k), cdh(c))),
        cf::list(&d.counts.iter().collect::<Vec<_>>(), |(a, c)| format!("({}, {})", hn(&a.0), c)),
        { let v: Vec<String> = d.txs.iter().map(|t| tx(t, proofs)).collect(); format!("[{}]", v.join("; ")) },
        d.fee_pool, d.mult, d.tips, d.speed,
        cf::list(&d.pools, |(k, p)| format!("({}, {})", poolkey_code(k), pool(p))),
        cf::list(&d.stakes.iter().collect::<Vec<_>>(), |(k, v)| format!("({}, {})", hn(&k.0), stakedoc(v))))
}

//! Output: Coq case files, JSON sidecars (one description per case, used for replays and evidence), stats.
use std::collections::BTreeMap;
use std::fs;
use std::path::PathBuf;

#[derive(Default, Clone)]
pub struct Stats(pub BTreeMap<String, u64>);
impl Stats {
    pub fn bump(&mut self, k: &str) { *self.0.entry(k.to_string()).or_insert(0) += 1; }
    pub fn add(&mut self, k: &str, n: u64) { *self.0.entry(k.to_string()).or_insert(0) += n; }
}

pub struct Emitter {
    pub dir: PathBuf,
    pub files: Vec<String>,
    pub stats: BTreeMap<String, Stats>,
    pub exhaustive: bool,
    pub notes: Vec<String>,
}

impl Emitter {
    pub fn new(dir: &str) -> Self {
        fs::create_dir_all(dir).unwrap();
        Emitter { dir: dir.into(), files: vec![], stats: BTreeMap::new(), exhaustive: false, notes: vec![] }
    }
    pub fn raw_file(&mut self, name: &str, coq: &str, metas: Vec<String>) {
        fs::write(self.dir.join(format!("{}.v", name)), coq).unwrap();
        fs::write(self.dir.join(format!("{}.json", name)), format!("[{}]", metas.join(",\n"))).unwrap();
        self.files.push(name.to_string());
    }
    /// `lines[i]` is a Gallina record of type `ty`; `chk` the model-side checker
    pub fn case_files(&mut self, stream: &str, ty: &str, chk: &str, lines: &[String], metas: &[String], per_file: usize) {
        self.case_files_with(stream, ty, chk, lines, metas, per_file, "Cases.Lib")
    }
    pub fn case_files_with(&mut self, stream: &str, ty: &str, chk: &str, lines: &[String], metas: &[String], per_file: usize, lib: &str) {
        for (k, (ls, ms)) in lines.chunks(per_file).zip(metas.chunks(per_file)).enumerate() {
            let mut s = String::new();
            s.push_str(&format!("From MelVerif Require Import {}.\nOpen Scope N_scope.\n", lib));
            s.push_str(&format!("Definition cases : list {} := [\n", ty));
            s.push_str(&ls.join(";\n"));
            s.push_str("\n].\n");
            s.push_str(&format!("Eval vm_compute in (failing {} 0 cases).\n", chk));
            self.raw_file(&format!("{}_{:03}", stream, k), &s, ms.to_vec());
        }
    }
    pub fn stats(&mut self, stream: &str, st: Stats) { self.stats.insert(stream.to_string(), st); }
    pub fn finish(&self) {
        let mut s = String::from("{\n \"files\": [");
        s.push_str(&self.files.iter().map(|f| format!("\"{}\"", f)).collect::<Vec<_>>().join(","));
        s.push_str("],\n \"exhaustive\": ");
        s.push_str(if self.exhaustive { "true" } else { "false" });
        s.push_str(",\n \"notes\": [");
        s.push_str(&self.notes.iter().map(|f| format!("{:?}", f)).collect::<Vec<_>>().join(","));
        s.push_str("],\n \"stats\": {");
        let mut first = true;
        for (k, st) in &self.stats {
            if !first { s.push(','); }
            first = false;
            s.push_str(&format!("\n  \"{}\": {{", k));
            s.push_str(&st.0.iter().map(|(a, b)| format!("\"{}\": {}", a, b)).collect::<Vec<_>>().join(", "));
            s.push('}');
        }
        s.push_str("\n }\n}\n");
        fs::write(self.dir.join("meta.json"), s).unwrap();
    }
}

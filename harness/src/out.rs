//! Output: Coq case files, JSON sidecars (one description per case, used for replays and evidence), stats.
use std::collections::BTreeMap;
use std::fs;
use std::path::PathBuf;

#[derive(Default, Clone)]
pub struct Stats(pub BTreeMap<String, u64>);
impl Stats {
    pub fn bump(&mut self, k: &str) { *self.0.entry(k.to_string()).or_insert(0) += 1; }
    pub fn add(&mut self, k: &str, n: u64) { *self.0.entry(k.to_string()).or_insert(0) += n; }
}

pub struct Emitter {
    pub dir: PathBuf,
    pub files: Vec<String>,
    pub stats: BTreeMap<String, Stats>,
    pub exhaustive: bool,
    pub notes: Vec<String>,
}

impl Emitter {
    pub fn new(dir: &str) -> Self {
        fs::create_dir_all(dir).unwrap();
        Emitter { dir: dir.into(), files: vec![], stats: BTreeMap::new(), exhaustive: false, notes: vec![] }
    }
    pub fn raw_file(&mut self, name: &str, coq: &str, metas: Vec<String>) {
        let coq = intern_big_numbers(coq);
        fs::write(self.dir.join(format!("{}.v", name)), coq).unwrap();
        fs::write(self.dir.join(format!("{}.json", name)), format!("[{}]", metas.join(",\n"))).unwrap();
        self.files.push(name.to_string());
    }
    /// `lines[i]` is a Gallina record of type `ty`; `chk` the model-side checker
    pub fn case_files(&mut self, stream: &str, ty: &str, chk: &str, lines: &[String], metas: &[String], per_file: usize) {
        self.case_files_with(stream, ty, chk, lines, metas, per_file, "Cases.Lib")
    }
    pub fn case_files_with(&mut self, stream: &str, ty: &str, chk: &str, lines: &[String], metas: &[String], per_file: usize, lib: &str) {
        for (k, (ls, ms)) in lines.chunks(per_file).zip(metas.chunks(per_file)).enumerate() {
            let mut s = String::new();
            s.push_str(&format!("From MelVerif Require Import {}.\nOpen Scope N_scope.\n", lib));
            s.push_str(&format!("Definition cases : list {} := [\n", ty));
            s.push_str(&ls.join(";\n"));
            s.push_str("\n].\n");
            s.push_str(&format!("Eval vm_compute in (failing {} 0 cases).\n", chk));
            self.raw_file(&format!("{}_{:03}", stream, k), &s, ms.to_vec());
        }
    }
    pub fn stats(&mut self, stream: &str, st: Stats) { self.stats.insert(stream.to_string(), st); }
    pub fn finish(&self) {
        let mut s = String::from("{\n \"files\": [");
        s.push_str(&self.files.iter().map(|f| format!("\"{}\"", f)).collect::<Vec<_>>().join(","));
        s.push_str("],\n \"exhaustive\": ");
        s.push_str(if self.exhaustive { "true" } else { "false" });
        s.push_str(",\n \"notes\": [");
        s.push_str(&self.notes.iter().map(|f| format!("{:?}", f)).collect::<Vec<_>>().join(","));
        s.push_str("],\n \"stats\": {");
        let mut first = true;
        for (k, st) in &self.stats {
            if !first { s.push(','); }
            first = false;
            s.push_str(&format!("\n  \"{}\": {{", k));
            s.push_str(&st.0.iter().map(|(a, b)| format!("\"{}\": {}", a, b)).collect::<Vec<_>>().join(", "));
            s.push('}');
        }
        s.push_str("\n }\n}\n");
        fs::write(self.dir.join("meta.json"), s).unwrap();
    }
}

fn dec_to_hex(d: &str) -> String {
    // repeated division by 2^32 on base-1e9 limbs
    let mut limbs: Vec<u64> = vec![];
    let bytes = d.as_bytes();
    let mut i = bytes.len() % 9;
    if i > 0 { limbs.push(d[..i].parse().unwrap()); }
    while i < bytes.len() { limbs.push(d[i..i + 9].parse().unwrap()); i += 9; }
    let mut out: Vec<u32> = vec![];
    while !limbs.is_empty() {
        let mut rem: u64 = 0;
        let mut next = Vec::with_capacity(limbs.len());
        for l in &limbs {
            let cur = rem * 1_000_000_000 + l;
            let q = cur >> 32;
            rem = cur & 0xffff_ffff;
            if !(next.is_empty() && q == 0) { next.push(q); }
        }
        out.push(rem as u32);
        limbs = next;
    }
    let mut s = String::from("0x");
    let mut first = true;
    for w in out.iter().rev() {
        if first { s.push_str(&format!("{:x}", w)); first = false; } else { s.push_str(&format!("{:08x}", w)); }
    }
    if first { s.push('0'); }
    s
}

/// Coq parses large numerals slowly (milliseconds each): every distinct numeral of 20+ digits is
/// defined once per file, in hexadecimal, and referred to by name.
pub fn intern_big_numbers(src: &str) -> String {
    let b = src.as_bytes();
    let mut out = String::with_capacity(src.len());
    let mut names: std::collections::HashMap<&str, usize> = std::collections::HashMap::new();
    let mut defs: Vec<String> = vec![];
    let mut i = 0;
    let mut last = 0;
    while i < b.len() {
        if b[i].is_ascii_digit() && (i == 0 || !(b[i - 1].is_ascii_alphanumeric() || b[i - 1] == b'_')) {
            let mut j = i;
            while j < b.len() && b[j].is_ascii_digit() { j += 1; }
            if j - i >= 20 && !(j < b.len() && (b[j].is_ascii_alphabetic() || b[j] == b'_')) {
                let lit = &src[i..j];
                let n = names.len();
                let k = *names.entry(lit).or_insert_with(|| { defs.push(format!("Definition bn_{} : N := {}.", n, dec_to_hex(lit))); n });
                out.push_str(&src[last..i]);
                out.push_str(&format!("bn_{}", k));
                last = j;
            }
            i = j;
        } else { i += 1; }
    }
    out.push_str(&src[last..]);
    if defs.is_empty() { return out; }
    // definitions go after the header lines (Require / Open Scope)
    let pos = out.find("Open Scope N_scope.\n").map(|p| p + "Open Scope N_scope.\n".len()).unwrap_or(0);
    let mut res = String::with_capacity(out.len() + defs.len() * 100);
    res.push_str(&out[..pos]);
    res.push_str(&defs.join("\n"));
    res.push('\n');
    res.push_str(&out[pos..]);
    res
}

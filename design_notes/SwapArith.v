(* Feasibility sketch for DESIGN.md section 10.3 (C15/C16 swap arithmetic). NOT part of the framework. *)
From Coq Require Import ZArith Lia.
Open Scope Z_scope.

(* melstructs PoolState::swap_many without saturation (supply bound):
   L' = L + l, R' = R + r,
   outR = floor(l * R' * 995 / (L' * 1000)),  outL = floor(r * L' * 995 / (R' * 1000)). *)
Section Swap.
Variables L R l r : Z.
Hypothesis HL : 1 <= L. Hypothesis HR : 1 <= R.
Hypothesis Hl : 0 <= l. Hypothesis Hr : 0 <= r.
Let L' := L + l. Let R' := R + r.
Let outR := (l * R' * 995) / (L' * 1000).
Let outL := (r * L' * 995) / (R' * 1000).

Lemma outL_bound : outL * (R' * 1000) <= r * L' * 995.
Proof. unfold outL. rewrite Z.mul_comm. apply Z.mul_div_le. unfold R'. lia. Qed.
Lemma outR_bound : outR * (L' * 1000) <= l * R' * 995.
Proof. unfold outR. rewrite Z.mul_comm. apply Z.mul_div_le. unfold L'. lia. Qed.

Lemma newL_scaled : L' * R <= (L' - outL) * R'.
Proof. pose proof outL_bound. unfold L', R' in *. nia. Qed.
Lemma newR_scaled : R' * L <= (R' - outR) * L'.
Proof. pose proof outR_bound. unfold L', R' in *. nia. Qed.

Theorem reserves_stay_positive : 1 <= L' - outL /\ 1 <= R' - outR.
Proof. pose proof newL_scaled. pose proof newR_scaled. unfold L', R' in *. split; nia. Qed.

Theorem product_never_decreases : L * R <= (L' - outL) * (R' - outR).
Proof.
  pose proof newL_scaled as A. pose proof newR_scaled as B.
  pose proof reserves_stay_positive as [P Q].
  assert (HLR : 0 < L' * R') by (unfold L', R'; nia).
  (* (a R')(b L') >= (L' R)(R' L)  =>  ab >= LR *)
  assert (M : (L' * R) * (R' * L) <= ((L' - outL) * R') * ((R' - outR) * L')).
  { apply Z.mul_le_mono_nonneg; unfold L', R' in *; nia. }
  apply Z.mul_le_mono_pos_r with (p := L' * R'); [exact HLR|]. nia.
Qed.
End Swap.

(* pro-rata: sum of floors <= whole *)
From Coq Require Import List. Import ListNotations.
Fixpoint zsum (l : list Z) := match l with [] => 0 | x :: t => x + zsum t end.
Lemma prorata_le : forall (vs : list Z) w T, 0 <= w -> 0 < T ->
  (forall v, In v vs -> 0 <= v) ->
  zsum (map (fun v => w * v / T) vs) * T <= w * zsum vs.
Proof.
  induction vs as [|v vs IH]; intros w T Hw HT Hpos; cbn [map zsum]; [lia|].
  assert (0 <= v) by (apply Hpos; left; reflexivity).
  specialize (IH w T Hw HT (fun x Hx => Hpos x (or_intror Hx))).
  pose proof (Z.mul_div_le (w * v) T HT). nia.
Qed.
Print Assumptions product_never_decreases.

use std::collections::BTreeMap;
use std::time::Instant;
use melstf::*;
use melstructs::*;
use melvm::{Covenant, opcode::OpCode};
use novasmt::{Database, InMemoryCas};
use stdcode::StdcodeSerializeExt;

fn genesis(net: NetID, stakes: BTreeMap<TxHash, StakeDoc>, denom: Denom, value: u128) -> UnsealedState<InMemoryCas> {
    let db = Database::new(InMemoryCas::default());
    GenesisConfig {
        network: net,
        init_coindata: CoinData { covhash: Covenant::always_true().hash(), value: CoinValue(value), denom, additional_data: vec![].into() },
        stakes,
        init_fee_pool: CoinValue(1<<40),
        init_fee_multiplier: 0,
    }.realize(&db)
}

fn catch<T>(name: &str, f: impl FnOnce() -> T + std::panic::UnwindSafe) -> Option<T> {
    match std::panic::catch_unwind(f) {
        Ok(v) => Some(v),
        Err(e) => { println!("[{name}] PANIC: {:?}", e.downcast_ref::<String>().cloned().or(e.downcast_ref::<&str>().map(|s| s.to_string()))); None }
    }
}

fn main() {
    let which: Vec<String> = std::env::args().skip(1).collect();
    let want = |s: &str| which.is_empty() || which.iter().any(|w| w == s);

    if want("confirm") {
        let sk = tmelcrypt::Ed25519SK::generate();
        let mut stakes = BTreeMap::new();
        stakes.insert(TxHash(tmelcrypt::hash_single(b"a")), StakeDoc{pubkey: sk.to_public(), e_start:0, e_post_end: 100, syms_staked: CoinValue(3)});
        let st = genesis(NetID::Custom02, stakes, Denom::Mel, 1000000).seal(None);
        let empty: ConsensusProof = BTreeMap::new();
        println!("[confirm] empty proof confirms: {}", st.confirm(empty).is_some());
        let mut full: ConsensusProof = BTreeMap::new();
        full.insert(sk.to_public(), sk.sign(&st.header().hash()).into());
        println!("[confirm] full proof confirms: {}", st.confirm(full).is_some());
    }

    if want("weight") {
        for n in [10usize, 16, 20, 22, 24] {
            let ops: Vec<OpCode> = (0..n).map(|_| OpCode::Loop(1, 65535)).collect();
            let c = Covenant::from_ops(&ops);
            let t = Instant::now();
            let w = c.weight();
            println!("[weight] n={n} weight={w} time={:?}", t.elapsed());
        }
    }

    if want("double") {
        for k in [20usize, 40, 63, 64, 65] {
            let mut ops = vec![OpCode::PushB(vec![7u8])];
            for _ in 0..k { ops.push(OpCode::Dup); ops.push(OpCode::BAppend); }
            ops.push(OpCode::BLength);
            let c = Covenant::from_ops(&ops);
            let t = Instant::now();
            let r = catch("double", move || c.debug_execute(&[]));
            println!("[double] k={k} -> {:?} in {:?}", r, t.elapsed());
        }
    }
    if want("btoi") {
        for k in [10usize, 14, 18, 20] {
            let mut ops = vec![OpCode::PushB(vec![7u8])];
            for _ in 0..k { ops.push(OpCode::Dup); ops.push(OpCode::BAppend); }
            ops.push(OpCode::BtoI);
            let c = Covenant::from_ops(&ops);
            let w = c.weight();
            let t = Instant::now();
            let r = catch("btoi", move || c.debug_execute(&[]));
            println!("[btoi] k={k} weight={w} -> {:?} in {:?}", r, t.elapsed());
        }
    }

    let at = Covenant::always_true();
    let mkfaucet = |outs: Vec<CoinData>, salt: u8| Transaction { kind: TxKind::Faucet, inputs: vec![], outputs: outs, fee: CoinValue(0), covenants: vec![], data: vec![salt].into(), sigs: vec![] };
    let cd = |d: Denom, v: u128| CoinData { covhash: Covenant::always_true().hash(), value: CoinValue(v), denom: d, additional_data: vec![].into() };

    if want("ovf") {
        let mut st = genesis(NetID::Custom02, BTreeMap::new(), Denom::Mel, 1000);
        let f = mkfaucet(vec![cd(Denom::Mel, 0)], 1);
        st.apply_tx(&f).unwrap();
        let tx = Transaction { kind: TxKind::Normal, inputs: vec![f.output_coinid(0)], outputs: (0..255).map(|_| cd(Denom::Mel, 1u128<<120)).collect(), fee: CoinValue(1u128<<120), covenants: vec![at.to_bytes()], data: vec![].into(), sigs: vec![] };
        let mut st2 = st.clone();
        let r = catch("ovf", std::panic::AssertUnwindSafe(move || st2.apply_tx(&tx)));
        println!("[ovf] result {:?}", r);
    }

    if want("swapkind") {
        let mut st = genesis(NetID::Custom02, BTreeMap::new(), Denom::Mel, 1000);
        st = st.seal(None).next_unsealed();
        let f = mkfaucet(vec![cd(Denom::Mel, 1_000_000)], 2);
        st.apply_tx(&f).unwrap();
        let pk = PoolKey::new(Denom::Mel, Denom::Sym);
        for kind in [TxKind::Normal, TxKind::Swap, TxKind::LiqDeposit, TxKind::Stake] {
            let tx = Transaction { kind, inputs: vec![f.output_coinid(0)], outputs: vec![cd(Denom::Mel, 500_000), cd(Denom::Mel, 500_000)], fee: CoinValue(0), covenants: vec![at.to_bytes()], data: pk.to_bytes(), sigs: vec![] };
            let mut s2 = st.clone();
            let r = s2.apply_tx(&tx);
            let sealed = s2.seal(None);
            println!("[swapkind] kind={:?} apply={:?} coin0 after seal = {:?}", kind, r, sealed.coin(tx.output_coinid(0)).map(|c| (c.coin_data.denom, c.coin_data.value)));
        }
    }

    if want("dosc") {
        let mut st = genesis(NetID::Custom02, BTreeMap::new(), Denom::Mel, 1000);
        st = st.seal(None).next_unsealed();
        st = st.seal(None).next_unsealed();
        // spend genesis coin (height 0) in a DoscMint with empty proof
        for (label, data) in [("emptyproof", (1u32, Vec::<u8>::new()).stdcode()), ("diff0", (0u32, vec![0u8;40]).stdcode()), ("diff70", (70u32, vec![0u8;40]).stdcode()), ("garbage", vec![1u8,2,3])] {
            let tx = Transaction { kind: TxKind::DoscMint, inputs: vec![CoinID::zero_zero()], outputs: vec![cd(Denom::Mel, 1000), cd(Denom::Erg, 1)], fee: CoinValue(0), covenants: vec![at.to_bytes()], data: data.into(), sigs: vec![] };
            let mut s2 = st.clone();
            let r = catch("dosc", std::panic::AssertUnwindSafe(move || s2.apply_tx(&tx)));
            println!("[dosc] {label}: {:?}", r);
        }
    }
    if want("cache") {
        // covenant: spender_index == 0
        let cov = Covenant::from_ops(&[OpCode::LoadImm(9), OpCode::PushI(0u32.into()), OpCode::Eql]);
        let mut st = genesis(NetID::Custom02, BTreeMap::new(), Denom::Mel, 1000);
        let mk = |v: u128| CoinData { covhash: cov.hash(), value: CoinValue(v), denom: Denom::Mel, additional_data: vec![].into() };
        let f = mkfaucet(vec![mk(10), mk(20)], 3);
        st.apply_tx(&f).unwrap();
        let both = Transaction { kind: TxKind::Normal, inputs: vec![f.output_coinid(0), f.output_coinid(1)], outputs: vec![cd(Denom::Mel, 30)], fee: CoinValue(0), covenants: vec![cov.to_bytes()], data: vec![].into(), sigs: vec![] };
        let second_only_as_idx1 = Transaction { kind: TxKind::Normal, inputs: vec![CoinID::zero_zero(), f.output_coinid(1)], outputs: vec![cd(Denom::Mel, 1020)], fee: CoinValue(0), covenants: vec![cov.to_bytes(), at.to_bytes()], data: vec![].into(), sigs: vec![] };
        println!("[cache] both inputs same covenant (idx0 ok, idx1 should fail): {:?}", st.clone().apply_tx(&both));
        println!("[cache] covenant coin at idx1 after different covenant: {:?}", st.clone().apply_tx(&second_only_as_idx1));
    }
    if want("revpool") {
        let mut st = genesis(NetID::Custom02, BTreeMap::new(), Denom::Mel, 1000);
        st = st.seal(None).next_unsealed();
        let canon = PoolKey::new(Denom::Mel, Denom::Erg);
        println!("[revpool] canonical Mel/Erg: left={:?} right={:?} bytes={:?}", canon.left(), canon.right(), canon.to_bytes());
        // long-form spelling with sides swapped
        let mut long = vec![0u8; 32];
        long.extend_from_slice(&(canon.right(), canon.left()).stdcode());
        let parsed = PoolKey::from_bytes(&long);
        println!("[revpool] long reversed parses to {:?}, to_bytes={:?}", parsed, parsed.map(|p| p.to_bytes()));
        let mut long2 = vec![0u8; 32];
        long2.extend_from_slice(&(Denom::Sym, Denom::Sym).stdcode());
        println!("[revpool] long equal parses to {:?}", PoolKey::from_bytes(&long2));
        let f = mkfaucet(vec![cd(canon.right(), 1_000_000)], 4);
        st.apply_tx(&f).unwrap();
        let before = st.clone().seal(None).pool(canon).unwrap();
        let tx = Transaction { kind: TxKind::Swap, inputs: vec![f.output_coinid(0)], outputs: vec![cd(canon.right(), 1_000_000)], fee: CoinValue(0), covenants: vec![at.to_bytes()], data: long.clone().into(), sigs: vec![] };
        // need fee in Mel: canon.right() may be Mel
        let r = st.apply_tx(&tx);
        let sealed = st.seal(None);
        let after = sealed.pool(canon).unwrap();
        println!("[revpool] apply={:?} pool before lefts={} rights={} ; after lefts={} rights={}; coin0={:?}", r, before.lefts, before.rights, after.lefts, after.rights, sealed.coin(tx.output_coinid(0)).map(|c| (c.coin_data.denom, c.coin_data.value)));
    }
    if want("depdouble") {
        let mut st = genesis(NetID::Custom02, BTreeMap::new(), Denom::Mel, 1000);
        st = st.seal(None).next_unsealed();
        let pk = PoolKey::new(Denom::Mel, Denom::Sym);
        let f = mkfaucet(vec![cd(pk.left(), 1_000_000), cd(pk.right(), 1_000_000)], 5);
        st.apply_tx(&f).unwrap();
        let before = st.clone().seal(None).pool(pk).unwrap();
        let tx = Transaction { kind: TxKind::LiqDeposit, inputs: vec![f.output_coinid(0), f.output_coinid(1)], outputs: vec![cd(pk.left(), 1_000_000), cd(pk.right(), 1_000_000)], fee: CoinValue(0), covenants: vec![at.to_bytes()], data: pk.to_bytes(), sigs: vec![] };
        let r = st.apply_tx(&tx);
        let sealed = st.seal(None);
        let after = sealed.pool(pk).unwrap();
        println!("[depdouble] apply={:?} before=({}, {}, liqs {}) after=({}, {}, liqs {}) coin0={:?} coin1={:?}", r, before.lefts, before.rights, before.liqs, after.lefts, after.rights, after.liqs,
          sealed.coin(tx.output_coinid(0)).map(|c| (c.coin_data.denom, c.coin_data.value)), sealed.coin(tx.output_coinid(1)).map(|c| (c.coin_data.denom, c.coin_data.value)));
    }

    if want("order") {
        let mut st = genesis(NetID::Custom02, BTreeMap::new(), Denom::Mel, 1000);
        st = st.seal(None).next_unsealed();
        let a = Transaction { kind: TxKind::Normal, inputs: vec![CoinID::zero_zero()], outputs: vec![cd(Denom::Mel, 1000)], fee: CoinValue(0), covenants: vec![at.to_bytes()], data: vec![1].into(), sigs: vec![] };
        let b = Transaction { kind: TxKind::Normal, inputs: vec![a.output_coinid(0)], outputs: vec![cd(Denom::Mel, 1000)], fee: CoinValue(0), covenants: vec![at.to_bytes()], data: vec![2].into(), sigs: vec![] };
        for (label, batch) in [("A,B", vec![a.clone(), b.clone()]), ("B,A", vec![b.clone(), a.clone()])] {
            let mut s2 = st.clone();
            let r = s2.apply_tx_batch(&batch);
            let sealed = s2.seal(None);
            println!("[order] {label}: {:?} coins_root={:?} A.out0 present={} B.out0 present={}", r, sealed.header().coins_hash, sealed.coin(a.output_coinid(0)).is_some(), sealed.coin(b.output_coinid(0)).is_some());
        }
    }
    if want("zero") {
        let pk = PoolKey::new(Denom::Mel, Denom::Sym);
        for (label, kind, outs) in [
            ("swap0", TxKind::Swap, vec![cd(Denom::Mel, 0), cd(Denom::Mel, 1000)]),
            ("dep0", TxKind::LiqDeposit, vec![cd(pk.left(), 0), cd(pk.right(), 0), cd(Denom::Mel, 1000)]),
            ("dep_l0", TxKind::LiqDeposit, vec![cd(pk.left(), 0), cd(pk.right(), 5)]),
            ("wd0", TxKind::LiqWithdraw, vec![cd(pk.liq_token_denom(), 0)]),
        ] {
            let mut st = genesis(NetID::Custom02, BTreeMap::new(), Denom::Mel, 1000);
            st = st.seal(None).next_unsealed();
            let f = mkfaucet(outs.clone(), 9);
            st.apply_tx(&f).unwrap();
            let tx = Transaction { kind, inputs: (0..outs.len()).map(|i| f.output_coinid(i as u8)).collect(), outputs: outs.clone(), fee: CoinValue(0), covenants: vec![at.to_bytes()], data: pk.to_bytes(), sigs: vec![] };
            let r = st.apply_tx(&tx);
            let r2 = catch("zero", std::panic::AssertUnwindSafe(move || st.seal(None).header().height));
            println!("[zero] {label}: apply={:?} seal={:?}", r, r2);
        }
    }
    if want("tinydep") {
        let mut st = genesis(NetID::Custom02, BTreeMap::new(), Denom::Mel, 1000);
        st = st.seal(None).next_unsealed();
        let f0 = mkfaucet(vec![cd(Denom::NewCustom, 1000)], 10);
        st.apply_tx(&f0).unwrap();
        let tok = Denom::Custom(f0.hash_nosigs());
        let pk = PoolKey::new(Denom::Mel, tok);
        let mut txs = vec![];
        for i in 0..2u8 {
            let f = mkfaucet(vec![cd(pk.left(), 4), cd(pk.right(), 4)], 20+i);
            st.apply_tx(&f).unwrap();
            let tx = Transaction { kind: TxKind::LiqDeposit, inputs: vec![f.output_coinid(0), f.output_coinid(1)], outputs: vec![cd(pk.left(), 4), cd(pk.right(), 4)], fee: CoinValue(0), covenants: vec![at.to_bytes()], data: pk.to_bytes(), sigs: vec![] };
            st.apply_tx(&tx).unwrap();
            txs.push(tx);
        }
        let sealed = st.seal(None);
        let pool = sealed.pool(pk).unwrap();
        println!("[tinydep] pool lefts={} rights={} liqs={}; coins: {:?}", pool.lefts, pool.rights, pool.liqs, txs.iter().map(|t| sealed.coin(t.output_coinid(0)).map(|c| c.coin_data.value.0)).collect::<Vec<_>>());
    }

    if want("feemult") {
        for (m, d) in [(1u128, -128i8), (0, -64), (0, -128), (3, -128), (256, -128), (1u128<<63, 127), ((1u128<<63)+4096, -128), (1u128<<70, 127)] {
            let db = Database::new(InMemoryCas::default());
            let st = GenesisConfig { network: NetID::Custom02, init_coindata: cd(Denom::Mel, 1000), stakes: BTreeMap::new(), init_fee_pool: CoinValue(1<<40), init_fee_multiplier: m }.realize(&db);
            let r = catch("feemult", std::panic::AssertUnwindSafe(move || st.seal(Some(ProposerAction{fee_multiplier_delta: d, reward_dest: Covenant::always_true().hash()})).header().fee_multiplier));
            println!("[feemult] m={m} d={d} -> {:?}", r);
        }
    }
    if want("tips") {
        let db = Database::new(InMemoryCas::default());
        let mut st = GenesisConfig { network: NetID::Custom02, init_coindata: cd(Denom::Mel, 1_000_000), stakes: BTreeMap::new(), init_fee_pool: CoinValue(1<<40), init_fee_multiplier: 0 }.realize(&db);
        st = st.seal(None).next_unsealed();
        let tx = Transaction { kind: TxKind::Normal, inputs: vec![CoinID::zero_zero()], outputs: vec![cd(Denom::Mel, 900_000)], fee: CoinValue(100_000), covenants: vec![at.to_bytes()], data: vec![].into(), sigs: vec![] };
        st.apply_tx(&tx).unwrap();
        let sealed = st.seal(None);
        let blk = sealed.to_block();
        let restored = SealedState::from_block(&blk, &sealed.raw_stakes(), &db);
        let act = Some(ProposerAction{fee_multiplier_delta: 0, reward_dest: Covenant::always_true().hash()});
        let h1 = sealed.next_unsealed().seal(act).header();
        let h2 = restored.next_unsealed().seal(act).header();
        println!("[tips] same header now: {} ; next headers equal: {} (coins {:?} vs {:?})", sealed.header()==restored.header(), h1==h2, h1.coins_hash, h2.coins_hash);
    }
    if want("empty_pool") {
        let mut st = genesis(NetID::Custom02, BTreeMap::new(), Denom::Mel, 1000);
        st = st.seal(None).next_unsealed();
        let f0 = mkfaucet(vec![cd(Denom::NewCustom, 1000), cd(Denom::Mel, 1000)], 10);
        st.apply_tx(&f0).unwrap();
        let tok = Denom::Custom(f0.hash_nosigs());
        let pk = PoolKey::new(Denom::Mel, tok);
        let (lv, rv) = (1000u128, 1000u128);
        let ins = if pk.left()==tok { vec![f0.output_coinid(0), f0.output_coinid(1)] } else { vec![f0.output_coinid(1), f0.output_coinid(0)] };
        let dep = Transaction { kind: TxKind::LiqDeposit, inputs: ins, outputs: vec![cd(pk.left(), lv), cd(pk.right(), rv)], fee: CoinValue(0), covenants: vec![at.to_bytes()], data: pk.to_bytes(), sigs: vec![] };
        println!("[empty_pool] dep apply {:?}", st.apply_tx(&dep));
        let sealed = st.seal(None);
        let liq = sealed.coin(dep.output_coinid(0)).unwrap();
        println!("[empty_pool] pool {:?} liq coin {:?} {}", sealed.pool(pk), liq.coin_data.denom, liq.coin_data.value);
        let mut st = sealed.next_unsealed();
        let f1 = mkfaucet(vec![cd(Denom::Mel, 5)], 11);
        st.apply_tx(&f1).unwrap();
        let wd = Transaction { kind: TxKind::LiqWithdraw, inputs: vec![dep.output_coinid(0), f1.output_coinid(0)], outputs: vec![liq.coin_data.clone()], fee: CoinValue(5), covenants: vec![at.to_bytes()], data: pk.to_bytes(), sigs: vec![] };
        println!("[empty_pool] wd apply {:?}", st.apply_tx(&wd));
        let sealed = st.seal(None);
        println!("[empty_pool] pool after withdraw-all {:?}", sealed.pool(pk));
        let mut st = sealed.next_unsealed();
        let f2 = mkfaucet(vec![cd(Denom::Mel, 50)], 12);
        st.apply_tx(&f2).unwrap();
        let sw = Transaction { kind: TxKind::Swap, inputs: vec![f2.output_coinid(0)], outputs: vec![cd(Denom::Mel, 50)], fee: CoinValue(0), covenants: vec![at.to_bytes()], data: pk.to_bytes(), sigs: vec![] };
        println!("[empty_pool] swap apply {:?}", st.apply_tx(&sw));
        let r = catch("empty_pool", std::panic::AssertUnwindSafe(move || st.seal(None).header().height));
        println!("[empty_pool] seal after swap on emptied pool: {:?}", r);
    }

    if want("dosc_ok") {
        let mut st = genesis(NetID::Custom02, BTreeMap::new(), Denom::Mel, 1000);
        let mut sealed = st.seal(None);
        for _ in 0..3 { sealed = sealed.next_unsealed().seal(None); }
        st = sealed.next_unsealed();
        let coin = st.clone().seal(None).coin(CoinID::zero_zero()).unwrap();
        let hdr = sealed.history(coin.height).unwrap();
        let puzzle = tmelcrypt::hash_keyed(hdr.hash(), &stdcode::serialize(&CoinID::zero_zero()).unwrap());
        for diff in [1usize, 4, 8, 12] {
            for tip910 in [false, true] {
                let t = Instant::now();
                let proof = if tip910 { melpow::Proof::generate(&puzzle, diff, Tip910MelPowHash) } else { melpow::Proof::generate(&puzzle, diff, LegacyMelPowHash) };
                let gen_t = t.elapsed();
                let speed = (if tip910 {100u128} else {1}) * (1u128 << diff) / 4;
                let reward = calculate_reward(speed, sealed.header().dosc_speed, diff as u32, tip910);
                let nom = dosc_to_erg(st.clone().seal(None).header().height, reward);
                let mk = |erg: u128| Transaction { kind: TxKind::DoscMint, inputs: vec![CoinID::zero_zero()], outputs: vec![cd(Denom::Mel, 1000), cd(Denom::Erg, erg)], fee: CoinValue(0), covenants: vec![at.to_bytes()], data: (diff as u32, proof.to_bytes()).stdcode().into(), sigs: vec![] };
                let r_ok = st.clone().apply_tx(&mk(nom));
                let r_over = st.clone().apply_tx(&mk(nom+1));
                println!("[dosc_ok] diff={diff} tip910={tip910} gen={:?} proofbytes={} speed={speed} reward={reward} nom={nom} at_bound={:?} over={:?}", gen_t, proof.to_bytes().len(), r_ok, r_over);
            }
        }
    }
    if want("stake") {
        let db = Database::new(InMemoryCas::default());
        let mut st = GenesisConfig { network: NetID::Custom02, init_coindata: cd(Denom::Sym, 1_000_000), stakes: BTreeMap::new(), init_fee_pool: CoinValue(1<<40), init_fee_multiplier: 0 }.realize(&db);
        st = st.seal(None).next_unsealed();
        let pk = tmelcrypt::Ed25519SK::generate().to_public();
        let f = mkfaucet(vec![cd(Denom::Mel, 10)], 30);
        st.apply_tx(&f).unwrap();
        let doc = StakeDoc { pubkey: pk, e_start: 1, e_post_end: 2, syms_staked: CoinValue(1_000_000) };
        let stake = Transaction { kind: TxKind::Stake, inputs: vec![CoinID::zero_zero(), f.output_coinid(0)], outputs: vec![cd(Denom::Sym, 1_000_000), cd(Denom::Mel, 10)], fee: CoinValue(0), covenants: vec![at.to_bytes()], data: doc.stdcode().into(), sigs: vec![] };
        println!("[stake] apply {:?}", st.apply_tx(&stake));
        let spend = |i: u8, v: u128, d: Denom| Transaction { kind: TxKind::Normal, inputs: vec![stake.output_coinid(i)], outputs: vec![cd(d, v)], fee: CoinValue(0), covenants: vec![at.to_bytes()], data: vec![7].into(), sigs: vec![] };
        println!("[stake] same block spend out0 {:?} out1 {:?}", st.clone().apply_tx(&spend(0, 1_000_000, Denom::Sym)), st.clone().apply_tx(&Transaction{ outputs: vec![cd(Denom::Mel,10)], ..spend(1,10,Denom::Mel)}));
        let sealed = st.seal(None);
        println!("[stake] registered {:?} votes e0={} e1={} e2={}", sealed.stake(stake.hash_nosigs()).is_some(), sealed.raw_stakes().votes(0, pk), sealed.raw_stakes().votes(1, pk), sealed.raw_stakes().votes(2, pk));
        // fabricate heights
        for h in [199_999u64, 200_000, 399_999, 400_000, 599_998, 599_999, 600_000] {
            let mut blk = sealed.to_block();
            blk.header.height = BlockHeight(h);
            let mut hist: SmtMapping<InMemoryCas, BlockHeight, Header> = SmtMapping::new(sealed.raw_history_smt());
            hist.insert(BlockHeight(h-1), sealed.header());
            blk.header.history_hash = hist.root_hash();
            let fab = SealedState::from_block(&blk, &sealed.raw_stakes(), &db);
            let r = catch("stake", std::panic::AssertUnwindSafe(|| { let mut u = fab.next_unsealed(); let r = u.apply_tx(&spend(0, 1_000_000, Denom::Sym)); (r, u.seal(None).raw_stakes().get_stake(stake.hash_nosigs()).is_some()) }));
            println!("[stake] fabricated parent height {h} (next epoch {}): spend -> {:?}", (h+1)/200000, r);
        }
    }

    if want("codec") {
        let mut n_ok = 0u64; let mut bad = 0u64;
        let mut check = |bs: &[u8]| {
            if let Ok(c) = Covenant::from_bytes(bs) {
                n_ok += 1;
                let re = c.to_bytes();
                if &re[..] != bs { bad += 1; if bad < 10 { println!("[codec] MISMATCH {:?} -> {:?} -> {:?}", bs, c.to_ops(), re); } }
                let again = Covenant::from_bytes(&re).unwrap();
                if again != c { println!("[codec] redecode differs {:?}", bs); }
            }
        };
        check(&[]);
        for a in 0..=255u8 { check(&[a]); for b in 0..=255u8 { check(&[a,b]); for c in 0..=255u8 { check(&[a,b,c]); } } }
        // pushic all lengths
        for len in 0..=33u8 { for first in [0u8,1,255] { let mut v = vec![0xf2, len]; if len>0 { v.push(first); for _ in 1..len { v.push(0x5a); } } check(&v); } }
        println!("[codec] decodable={} mismatches={}", n_ok, bad);
    }

    if want("counts") {
        use std::collections::HashMap;
        let mut st = genesis(NetID::Custom02, BTreeMap::new(), Denom::Mel, 1_000_000);
        st = st.seal(None).next_unsealed();
        let pk = PoolKey::new(Denom::Mel, Denom::Sym);
        let f = mkfaucet(vec![cd(Denom::Mel, 500_000), cd(Denom::Sym, 500_000), cd(Denom::Mel, 77)], 40);
        st.apply_tx(&f).unwrap();
        let sw = Transaction { kind: TxKind::Swap, inputs: vec![CoinID::zero_zero()], outputs: vec![cd(Denom::Mel, 600_000), cd(Denom::Mel, 400_000)], fee: CoinValue(0), covenants: vec![at.to_bytes()], data: pk.to_bytes(), sigs: vec![] };
        st.apply_tx(&sw).unwrap();
        let dep = Transaction { kind: TxKind::LiqDeposit, inputs: vec![f.output_coinid(0), f.output_coinid(1)], outputs: vec![cd(pk.left(), 500_000), cd(pk.right(), 500_000)], fee: CoinValue(0), covenants: vec![at.to_bytes()], data: pk.to_bytes(), sigs: vec![] };
        st.apply_tx(&dep).unwrap();
        let act = Some(ProposerAction{fee_multiplier_delta: 0, reward_dest: tmelcrypt::hash_single(b"dest").into()});
        let sealed = st.seal(act);
        let dump = |sealed: &SealedState<InMemoryCas>| {
            let mut per: HashMap<Address, u64> = HashMap::new(); let mut counts_total = 0u64; let mut ncoins = 0u64; let mut ncount_entries = 0;
            for (_k, v) in sealed.raw_coins_smt().iter() {
                if let Ok(cdh) = stdcode::deserialize::<CoinDataHeight>(&v) { *per.entry(cdh.coin_data.covhash).or_default() += 1; ncoins += 1; }
                else if let Ok(c) = stdcode::deserialize::<u64>(&v) { counts_total += c; ncount_entries += 1; }
                else { println!("[counts] undecodable entry"); }
            }
            (ncoins, counts_total, per.len(), ncount_entries)
        };
        println!("[counts] after swap+deposit+reward: {:?}", dump(&sealed));
        let liq = sealed.coin(dep.output_coinid(0)).unwrap();
        let mut st = sealed.next_unsealed();
        let wd = Transaction { kind: TxKind::LiqWithdraw, inputs: vec![dep.output_coinid(0), f.output_coinid(2)], outputs: vec![liq.coin_data.clone()], fee: CoinValue(77), covenants: vec![at.to_bytes()], data: pk.to_bytes(), sigs: vec![] };
        println!("[counts] wd {:?}", st.apply_tx(&wd));
        let sealed2 = st.seal(act);
        println!("[counts] after withdraw: {:?}; coin0={:?} coin1={:?}", dump(&sealed2), sealed2.coin(wd.output_coinid(0)).map(|c| (c.coin_data.denom, c.coin_data.value)), sealed2.coin(wd.output_coinid(1)).map(|c| (c.coin_data.denom, c.coin_data.value)));
        // proofs
        let root = sealed2.header().coins_hash.0;
        let tree = sealed2.raw_coins_smt();
        let key = tmelcrypt::hash_single(&stdcode::serialize(&wd.output_coinid(1)).unwrap()).0;
        let (val, proof) = tree.get_with_proof(key);
        let absent = tmelcrypt::hash_single(b"nope").0;
        let (val2, proof2) = tree.get_with_proof(absent);
        println!("[counts] proof present verifies {} ; absent (len {}) verifies {} ; wrong value verifies {}", proof.verify(root, key, &val), val2.len(), proof2.verify(root, absent, &val2), proof.verify(root, key, b"x"));
    }
}
